#!/usr/bin/python3
# usage: eval_mutant.py <seed-id> [check ...]   applies seeded/<id>/patch.diff to /repo, runs the checks, reverts; records the outcome in seeded/<id>/meta.json
import sys, os, json, subprocess, time, re
V = os.path.dirname(os.path.dirname(os.path.abspath(__file__)))
sid = sys.argv[1]
d = os.path.join(V, "seeded", sid)
meta = json.load(open(os.path.join(d, "meta.json")))
prop = meta.get("property", sid.split("_")[0])
checks = sys.argv[2:] or [prop]
tier = os.environ.get("MUT_TIER", "quick")
st = subprocess.run(["git", "-C", "/repo", "status", "--porcelain", "--untracked-files=no"], capture_output=True, text=True).stdout.strip()
if st:
    sys.exit("/repo has uncommitted changes: " + st)
r = subprocess.run(["git", "-C", "/repo", "apply", os.path.join(d, "patch.diff")], capture_output=True, text=True)
if r.returncode != 0:
    print("APPLY FAILED", r.stderr[:500]); sys.exit(2)
res = meta.setdefault("evaluation", {})
try:
    for c in checks:
        t0 = time.time()
        env = dict(os.environ, VERIF_REPLAY_DIR="/tmp/mut_replays/" + sid)
        p = subprocess.run([os.path.join(V, "check"), c, "--tier", tier, "--no-evidence"], capture_output=True, text=True, env=env, cwd=V)
        viol = [l for l in p.stdout.split("\n") if l.startswith("VIOLATION")]
        sigs = [l.strip() for l in p.stdout.split("\n") if l.strip().startswith("signature:")]
        incon = [l for l in p.stdout.split("\n") if l.startswith("INCONCLUSIVE")]
        res["%s/%s" % (c, tier)] = {"exit": p.returncode, "violations": len(viol), "signatures": sigs[:4], "inconclusive": incon[:1], "wall_s": round(time.time() - t0, 1)}
        print("%s %s/%s: exit=%d violations=%d %s %s" % (sid, c, tier, p.returncode, len(viol), (sigs[0][:200] if sigs else ""), incon[:1]))
finally:
    subprocess.run(["git", "-C", "/repo", "checkout", "--", "."])
json.dump(meta, open(os.path.join(d, "meta.json"), "w"), indent=1)
