#!/usr/bin/python3
# Refreshes the generated regions of DESIGN.md (between <!-- BEGIN:x --> and <!-- END:x --> markers):
#   fixed    - table of repaired defects from known_findings.json
#   seeded   - table of seeded changes from seeded/*/meta.json (tools/mkseeded.py)
#   classes  - table of coverage classes from evidence/*.json (tools/mkclasses.py)
#   corpus   - list of the fixed corner corpus (harness/gen.py)
import json, os, re, subprocess, sys
V = os.path.dirname(os.path.dirname(os.path.abspath(__file__)))
sys.path.insert(0, os.path.join(V, "harness"))

def fixed_table():
    kf = json.load(open(os.path.join(V, "known_findings.json")))
    rows = ["| commit | properties | what failed before the fix |", "|---|---|---|"]
    for e in kf.get("findings", []):
        if e.get("status") == "fixed":
            rows.append("| `%s` | %s | %s |" % (e.get("commit", "?")[:7], ", ".join(e["property"]) if isinstance(e["property"], list) else e["property"], e["what"].replace("|", "\\|")))
    return "\n".join(rows)

def tool(name):
    return subprocess.run([sys.executable, os.path.join(V, "tools", name)], capture_output=True, text=True, check=True).stdout.strip()

def corpus():
    import gen
    out = []
    for name, S in gen.corner_corpus():
        L = max(len(s) for s in S)
        out.append("`%s` (n=%d, longest %d)" % (name, len(S), L))
    return "%d fixed sets: " % len(out) + ", ".join(out) + "."

gens = {"fixed": fixed_table, "seeded": lambda: tool("mkseeded.py"), "classes": lambda: tool("mkclasses.py"), "corpus": corpus}
p = os.path.join(V, "DESIGN.md")
s = open(p).read()
for k, fn in gens.items():
    pat = re.compile(r"(<!-- BEGIN:%s -->\n).*?(<!-- END:%s -->)" % (k, k), re.S)
    if pat.search(s):
        body = fn()
        s = pat.sub(lambda m: m.group(1) + body + "\n" + m.group(2), s)
        print("refreshed", k, len(body.split("\n")), "lines")
    else:
        print("no marker for", k)
open(p, "w").write(s)
