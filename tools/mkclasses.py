#!/usr/bin/env python3
# Prints the markdown table of DESIGN.md Appendix C from what the checks actually reported: every coverage class found in
# /verif/evidence/*.json (count > 0), the properties whose run observed it, and the properties that *require* it
# (required=(...) in harness/checks.py: the check is inconclusive when the class was never hit).
import json, glob, re, os, collections
root = os.path.dirname(os.path.dirname(os.path.abspath(__file__)))
seen = collections.defaultdict(dict)
for f in sorted(glob.glob(os.path.join(root, "evidence", "C*.json"))):
    d = json.load(open(f))
    pid = d["property_id"]
    for k, v in d["coverage"].get("coverage_classes", {}).items():
        if v:
            seen[k][pid] = v
req = collections.defaultdict(set)
src = open(os.path.join(root, "harness", "checks.py")).read()
cur = None
for ln in src.split("\n"):
    m = re.match(r'@register\("(C\d\d)"\)', ln)
    if m:
        cur = m.group(1)
    m = re.search(r"required=\(([^)]*)\)", ln)
    if m and cur and "def " not in ln:
        for c in re.findall(r'"([^"]+)"', m.group(1)):
            req[c].add(cur)
def group(k):
    k = re.sub(r"_\d+$", "_<k>", k)
    return k
rows = collections.OrderedDict()
for k in sorted(seen):
    g = group(k)
    e = rows.setdefault(g, {"props": set(), "n": 0, "req": set()})
    e["props"] |= set(seen[k])
    e["n"] += sum(seen[k].values())
    e["req"] |= req.get(k, set())
print("| class | observed by (quick tier, seed 1) | observations | required by |")
print("|---|---|---|---|")
for g, e in rows.items():
    print("| `%s` | %s | %d | %s |" % (g, " ".join(sorted(e["props"])), e["n"], " ".join(sorted(e["req"])) or "-"))
