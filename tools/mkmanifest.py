#!/usr/bin/python3
# regenerates MANIFEST.json from the table below (keeps it valid at all times)
import json, os, subprocess
V = os.path.dirname(os.path.dirname(os.path.abspath(__file__)))
props = [json.loads(l) for l in open(os.path.join(V, "properties.jsonl"))]
CLAIMED = json.load(open(os.path.join(V, "tools", "claimed.json")))
try:
    commits = subprocess.run(["git", "-C", "/repo", "log", "--format=%H %s"], capture_output=True, text=True).stdout.strip().split("\n")
    hook_commits = [c.split(" ")[0] for c in commits if "LIBCSD_VERIF" in c]
except Exception:
    hook_commits = []
checks, na = [], []
for p in props:
    pid = p["id"]
    c = CLAIMED.get(pid)
    if not c or c.get("na"):
        na.append({"property_id": pid, "reason": (c or {}).get("na", "check not built yet (work in progress)")})
        continue
    checks.append({
        "property_id": pid,
        "quick_cmd": "./check %s --tier quick" % pid,
        "thorough_cmd": "./check %s --tier thorough" % pid,
        "evidence_file": "/verif/evidence/%s.json" % pid,
        "replay_cmd_template": "./check --replay {path}",
        "engine": c.get("engine", "dict_driver"),
        "level_claimed": {"category": "exploration", "text": c["text"], "design_ref": c.get("design_ref", "DESIGN.md section 5, " + pid)},
        "level_note": c.get("note", "trusted base: gcc 12 sanitizer runtimes, the ~100-line reference model in harness/model.h, the input generators (validated per case); held only on the executions explored"),
        "technique": c["technique"],
    })
m = {
    "version": 1,
    "setup_cmd": "./check --setup",
    "hooks": {"guard": "LIBCSD_VERIF", "enable": "-DLIBCSD_VERIF in harness/build.mk (all flavors)", "baseline_off_cmd": "cmake --build /repo/_build && ctest --test-dir /repo/_build -j8 --timeout 900",
              "source_commits": hook_commits, "add_only": True},
    "engines": [
        {"name": "dict_driver", "path": "harness/dict_driver.cpp", "serves_properties": ["C01", "C02", "C03", "C04", "C05", "C06", "C07", "C08", "C12", "C13", "C14", "C15", "C16"], "kind_free_text": "one dictionary case per process under ASan+UBSan subset; online reference-model monitors, transcript hashes, breadcrumb"},
        {"name": "comp_driver", "path": "harness/comp_driver.cpp", "serves_properties": ["C17", "C18", "C19", "C20"], "kind_free_text": "component monitors (codecs, containers, code tables, libcds, Re-Pair) against plain-definition oracles"},
        {"name": "pool_driver", "path": "harness/pool_driver.cpp", "serves_properties": ["C09", "C10", "C11"], "kind_free_text": "worker pool / block build stress with hook event log, delay injection, pthread_cond_wait interposer, TSan"},
    ],
    "checks": checks,
    "not_applicable": na,
    "notes": "Runtime monitoring and sanitizers only. Known genuine defects are listed in known_findings.json (open = still present, fixed = repaired by a fix: commit in /repo).",
}
json.dump(m, open(os.path.join(V, "MANIFEST.json"), "w"), indent=1)
print("MANIFEST.json: %d checks, %d not_applicable" % (len(checks), len(na)))
