#!/usr/bin/python3
# prints the markdown table of seeded changes (DESIGN.md section 11) from seeded/*/meta.json
import json, glob, os, re
V = os.path.dirname(os.path.dirname(os.path.abspath(__file__)))
rows = []
ST = json.load(open(os.path.join(V, "tools", "strengthening.json")))
for d in sorted(glob.glob(os.path.join(V, "seeded", "*"))):
    sid = os.path.basename(d)
    m = json.load(open(os.path.join(d, "meta.json")))
    ev = m.get("evaluation", {})
    caught = []
    missed_first = []
    for k, v in sorted(ev.items()):
        if v.get("violations", 0) > 0 and v.get("exit") == 1:
            sig = (v.get("signatures") or [""])[0]
            sig = re.sub(r"^signature: ", "", sig)
            sig = sig.split("  ")[0]
            caught.append("%s (`%s`)" % (k.split("/")[0], sig[:90].replace("|", " · ")))
    summ = (m.get("summary") or "").replace("|", "\\|").replace("\n", " ")
    needs = (m.get("needs") or "").replace("|", "\\|").replace("\n", " ")
    note = " **Note:** " + m["note_after_confirmation"][:300] if m.get("note_after_confirmation") else ""
    first = ("missed; then: " + ST[sid]) if sid in ST else "caught"
    rows.append("| `%s` | %s | %s | %s%s | %s |" % (sid, summ[:170], needs[:170], "; ".join(caught) if caught else "— (see note)", note, first))
print("| id | change (abridged; full text in seeded/<id>/meta.json) | needs (abridged) | caught by (first signature) | first evaluation |")
print("|---|---|---|---|---|")
print("\n".join(rows))
