#!/usr/bin/python3
# prints the markdown table of seeded changes (DESIGN.md section 11) from seeded/*/meta.json
import json, glob, os, re
V = os.path.dirname(os.path.dirname(os.path.abspath(__file__)))
rows = []
for d in sorted(glob.glob(os.path.join(V, "seeded", "*"))):
    sid = os.path.basename(d)
    m = json.load(open(os.path.join(d, "meta.json")))
    ev = m.get("evaluation", {})
    caught = []
    missed_first = []
    for k, v in sorted(ev.items()):
        if v.get("violations", 0) > 0 and v.get("exit") == 1:
            sig = (v.get("signatures") or [""])[0]
            sig = re.sub(r"^signature: ", "", sig)
            sig = sig.split("  ")[0]
            caught.append("%s (`%s`)" % (k.split("/")[0], sig[:90]))
    summ = (m.get("summary") or "").replace("|", "\\|").replace("\n", " ")
    needs = (m.get("needs") or "").replace("|", "\\|").replace("\n", " ")
    note = " **Note:** " + m["note_after_confirmation"][:300] if m.get("note_after_confirmation") else ""
    rows.append("| `%s` | %s | %s | %s%s |" % (sid, summ[:260], needs[:260], "; ".join(caught) if caught else "— (see note)", note))
print("| id | change | needs | caught by (first signature) |")
print("|---|---|---|---|")
print("\n".join(rows))
