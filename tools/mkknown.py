#!/usr/bin/python3
# Regenerates known_findings.json: open findings (hand-written below) + one `fixed` record per fix: commit in /repo.
import json, os, subprocess
V = os.path.dirname(os.path.dirname(os.path.abspath(__file__)))

OPEN = [
 {"id": "KF-RP-VBYTE-ZERO", "property": ["C01", "C02", "C03", "C04", "C06", "C07", "C08", "C12", "C13", "C14", "C15", "C16", "C18", "C20"], "status": "open",
  "match": {"kind": ["RPFC", "RPHTFC"], "pred": "any(l >= 16384 and ((l >> 7) & 127) == 0 for i, l in enumerate(lcps) if (i + 1) % bs != 0)"},
  "what": "RPFC/RPHTFC constructors take a zero byte in the second position of the shared-prefix VByte (prefix lengths 16384..16511, 32768..32895, ...) for a string terminator: the bucket is built wrongly (missing / wrong strings, exceptions)",
  "witness": {"input": ["x^16390", "x^16390 a", "x^16390 ab", "x^16390 b"], "kind": "RPFC bucket size 4", "call": "locate(x^16390 a)", "expected": 2, "got": 0},
  "why_not_fixed": "the Re-Pair based front coding marks string ends by position (a zero that does not directly follow a terminator); telling a zero VByte byte from a terminator after compression needs a different end marker, i.e. a format change"},
 {"id": "KF-XBW-RANK", "property": ["C03", "C06", "C08"], "status": "open",
  "match": {"kind": ["XBW"], "op": ["rank"], "fclass": "order", "site": "oracle"},
  "what": "XBW locateRank/extractRank are the identity on XBW (trie) IDs, which are not lexicographic ranks: extractRank(k) is not the k-th smallest string",
  "witness": {"input": ["cb", "cbba"], "call": "extractRank(1)", "expected": "cb", "got": "cbba"},
  "why_not_fixed": "a correct answer needs a rank<->ID mapping (subtree leaf counts) that the XBW structure does not store; turning the calls into stubs would remove behaviour rather than correct it"},
]

# commit subject prefix -> (properties, what failed before the fix)
FIXED = {
 "the HTFC constructor's look-ahead for the chunk that ends a bucket header": (["C01", "C03", "C07", "C08", "C18"], "HTFC constructor: same past-the-end look-ahead as in HHTFC (the chunk that ends the last bucket's header was indexed with uninitialised heap bytes); witness: 130 strings `stem+{a,b,c}` over c..p, bucket size 4, heap fill byte 0xBE: extract(401 of the original 402-string set) crashed in DecodingTable::getSubstring (found by C07 at seed 7)"),
 "the HHTFC constructor's look-ahead for the chunk that ends a bucket header": (["C01", "C03", "C07", "C08", "C18"], "HHTFC constructor read the front-coded text past its last byte while registering the chunk that ends the last bucket's header (short last bucket: header + tiny internal strings, e.g. 2000 random stems x suffixes a/b with bucket size 2): the chunk index depended on uninitialised heap bytes, so extract of the last strings crashed or the image differed between heap fill patterns"),
 "pass the whole compacted sequence to DAC_VLS": (["C01", "C03", "C07", "C17", "C20"], "RPDAC/HASHRPDAC/blocks: last string dropped (wrong/missing answers, heap over-read) when it compresses to one symbol; e.g. {a,ab,abc..,z}"),
 "DAC_VLS::access must not follow": (["C01", "C07", "C17"], "DAC_VLS::access heap overflow when the longest sequence has one symbol (e.g. dictionary {a})"),
 "initialise all 256 DecodingTable": (["C07", "C18"], "DecodingTable info entry 255 never initialised; fresh tables not initialised at all"),
 "give the coder of a freshly built": (["C01", "C06", "C07"], "freshly built HTFC/HHTFC/RPHTFC/HASHHF/HASHUFFDAC crashed on the first query (coder without decoding table)"),
 "attach the compressed strings to the hash": (["C01", "C06", "C07"], "freshly built HASHHF/HASHUFFDAC: hash had no data pointer, locate dereferenced garbage"),
 "DAC_BVLS allocates the nLevels+1": (["C06", "C07", "C08"], "HASHUFFDAC save read one uint past levelsIndex (heap over-read, uninitialised bytes in the image)"),
 "StringDictionaryPFC::searchPrefix reports NORESULT": (["C04", "C07", "C13"], "PFC locatePrefix/extractPrefix for a pattern without match inside its candidate bucket walked past the bucket (spurious results, heap over-read, SEGV); e.g. {a,b} pattern a\\x02"),
 "SSA::locate/locateP test the last pattern byte": (["C02", "C04", "C05", "C07"], "FMINDEX prefix/substring search over-read occ[] for a pattern whose last byte is above the indexed alphabet"),
 "FMINDEX extractPrefix passes the scanner": (["C04", "C13"], "FMINDEX extractPrefix yielded fewer strings than matched unless the range started at ID 1"),
 "suffix sorting mask is computed in long": (["C01", "C07"], "FMINDEX construction heap over-read / wrong suffix array for texts shorter than the alphabet range (int overflow in 1 << (r-1)*s)"),
 "zero-initialise the BWT sample array": (["C05", "C07", "C08"], "FMINDEX: uninitialised last BWT sample when (n+1) % sampling == 0 (SEGV at build, garbage in image)"),
 "PFC constructor reserves room": (["C07"], "PFC constructor wrote past textStrings for one-byte strings at the capacity boundary (2*len estimate)"),
 "RPFC/RPHTFC constructors grow rpdict": (["C01", "C07"], "RPFC/RPHTFC constructor heap overflows: rpdict grown once only; beginnings[] one short when n % bucketsize == 0; n == 1 walked an empty vector"),
 "RPFC/RPHTFC constructors reserve what a bucket of long strings": (["C07"], "RPFC/RPHTFC constructor overflowed textStrings for buckets whose strings exceed 1000 bytes"),
 "RePair::extractStringAndCompareRP restores": (["C02", "C07", "C14"], "HASHRPF locate: caller's pattern left modified on early return; over-read of Cls when the pattern contains the byte max(alphabet)+1"),
 "HASHHF/HASHRPF/HASHRPDAC loaders keep": (["C06", "C08"], "re-saving a loaded HASHHF/HASHRPF/HASHRPDAC wrote the load option as type tag (unloadable image; HASHRPDAC re-save dereferenced NULL)"),
 "XBW constructor releases the sequence builder": (["C07"], "XBW::XBW deleted a BitSequenceBuilderRRR through an unrelated pointer type"),
 "XBW extractPrefix returns no iterator": (["C04", "C07"], "XBW extractPrefix heap overflow for a non-matching pattern longer than maxlength"),
 "XBW::subPathSearch treats a one-byte query": (["C05", "C07"], "XBW locateSubstr/extractSubstr spun (CPU limit) on one-byte patterns"),
 "the XBW dictionary constructor builds the XBW object": (["C01", "C06", "C07"], "freshly built XBW dictionary had no XBW object: every query dereferenced NULL"),
 "a loaded XBW dictionary can be saved again": (["C07", "C08"], "saving a loaded XBW dictionary dereferenced NULL arrays"),
 "RPHTFC constructor registers the ending substring": (["C01", "C07", "C18"], "RPHTFC: header ending substrings never registered in the decoding table: extract failed on most small dictionaries"),
 "HTFC/HHTFC/RPHTFC compare and copy encoded bucket headers": (["C02", "C04", "C07"], "HTFC/HHTFC/RPHTFC locate/locatePrefix memcmp/memcpy read past the end of the loaded text for patterns longer than the last header"),
 "HHTFC constructor registers the ending substring of a last bucket that is not full": (["C01", "C07", "C18"], "HHTFC: last internal strings of a partially filled last bucket undecodable"),
 "HHTFC constructor registers the ending substring of a last bucket holding only its header": (["C01", "C07", "C18"], "HHTFC: last header undecodable when n % bucketsize == 1 (incl. n == 1)"),
 "HTFC/HHTFC/RPHTFC keep maxcomplength zeroed bytes": (["C01", "C06", "C07"], "HT-coded kinds read up to maxcomplength bytes past the end of the loaded text while decoding the last header"),
 "RPHTFC pads the ending substring of a header with as many internal symbols": (["C01", "C07", "C18"], "RPHTFC: header followed by Re-Pair symbols of fewer than 16 bits undecodable"),
 "HASHHF::extractTable reads ahead": (["C07", "C13"], "HASHHF extractTable crashed on small dictionaries (read-ahead limited to maxlength)"),
 "hash tables loaded in the compacted representations": (["C06", "C08"], "HASHHF/HASHRPF loaded with option 2/3: save used a freed / compacted table (use-after-free, unloadable image)"),
 "the RPFC string iterator reports the length": (["C13"], "RPFC extractTable/extractPrefix reported strlen+1 for internal strings"),
 "SSA::locate forgets the separator": (["C05"], "FMINDEX locateSubstr/extractSubstr lost members: a sampled occurrence following an unsampled one was mapped with the previous occurrence's ID"),
 "BitSequenceRRR handles blocks without offset bits": (["C07", "C19"], "BitSequenceRRR build/rank1 touched O[0] of a zero-length O (all blocks uniform) and mis-read the offset of a leading uniform block"),
 "RPFC/RPHTFC decode the first symbols of an internal string": (["C02", "C07"], "RPFC/RPHTFC locate heap overflow: a rule expanded into a maxlength-sized VByte scratch buffer"),
 "the front-coding constructors build with the corrected bucket size": (["C07", "C12"], "bucket size 0 spun forever in Reallocate(0) and bucket size 1 built a broken dictionary (the constructors used the uncorrected parameter)"),
 "HASHHF constructor does not look for a string after the last one": (["C07"], "HASHHF constructor read sorting[elements] (past the vector) when the look-ahead of the next-to-last string ran over the last one"),
 "HASHHF zero-initialises its text buffer": (["C07", "C08"], "HASHHF images contained one never-written byte of textStrings (two builds of the same input differed)"),
 "HASHHF constructor reserves room for the three bytes": (["C07"], "HASHHF constructor wrote/saved up to three bytes past textStrings when the last string ended at the capacity boundary"),
 "the worker pool changes the queue and the stop flags under the mutex": (["C09", "C10"], "WorkerPool lost wake-up: add_task / stop_all_workers changed state and notified without the mutex the workers wait on; a worker preempted between its predicate check and blocking slept forever and wait_workers never returned (e.g. 1 worker, 9 tasks, the stop issued by a task)"),
 "LogSequence::set_field clears the old value of a 64-bit field": (["C17"], "LogSequence with 64-bit fields ORed a new value into the old one (shift by the word width)"),
 "BitSequenceDArray sizes its in-superblock rank table": (["C19", "C07"], "BitSequenceDArray::build wrote past its rank table on every bit vector"),
 "the SDArray low-bits array has the extra word": (["C19", "C07"], "BitSequenceSDArray over-read its low-bits array on all-ones vectors"),
 "WaveletTreeNoptrs::rank answers for a sequence whose only symbol is 0": (["C19"], "WaveletTreeNoptrs::rank returned 0 for every position of a sequence consisting only of symbol 0"),
 "WaveletTreeNoptrs::select answers for a sequence whose only symbol is 0": (["C19"], "WaveletTreeNoptrs::select failed an assertion (indexing level -1) on a sequence consisting only of symbol 0"),
 "a decoding subtree keeps its parenthesis bitmap": (["C07", "C08"], "DecodingTree::save freed the tree bitmap (and load freed it too): a second save, or any save of a loaded HTFC/HHTFC/RPHTFC/HASHHF/HASHUFFDAC dictionary with codewords longer than 16 bits, used freed memory"),
 "HTFC/HHTFC count the padding bits to the next byte boundary": (["C01", "C07", "C18"], "HTFC/HHTFC: a header followed by very short internal strings (look-ahead reaching the next bucket header) was registered without the padding bits and could not be decoded (e.g. 253 copies of a 43-byte string with distinct last bytes, bucket size 2)"),
 "the front-coding decoders read the whole VByte": (["C01", "C04", "C07", "C13"], "HTFC/HHTFC/RPFC/RPHTFC decoded only two bytes of the shared-prefix length: strings sharing 16384 or more bytes with their predecessor were garbage / heap over-reads"),
 "the chunk decoders do not take a zero byte": (["C01", "C04", "C07", "C18"], "HTFC/HHTFC: strings sharing a prefix of 128, 256, ... bytes with their predecessor undecodable (VByte zero byte taken for the terminator)"),
 "a decoding-table entry never describes more than the 15 symbols": (["C01", "C07", "C18"], "HASHHF/HASHUFFDAC/HHTFC: 16 consecutive one-bit codewords overflowed the 4-bit length of a table entry (e.g. one string of 700 x's)"),
 "FMINDEX maps the sampled position that follows the text": (["C07"], "FMINDEX construction read past the separators bitmap when the text length is a multiple of the sampling step and of 15"),
 "the HTFC/HHTFC string iterators do not take": (["C04", "C13", "C14"], "HTFC/HHTFC iterators: same VByte zero-byte confusion as the decoders"),
}

def main():
    log = subprocess.run(["git", "-C", "/repo", "log", "--reverse", "--format=%h %s"], capture_output=True, text=True).stdout.strip().split("\n")
    findings = list(OPEN)
    used = set()
    for ln in log:
        h, subj = ln.split(" ", 1)
        if not subj.startswith("fix:"):
            continue
        s = subj[4:].strip()
        hit = None
        for k in FIXED:
            if s.startswith(k):
                hit = k
        if not hit:
            raise SystemExit("fix commit without a record: " + ln)
        used.add(hit)
        props, what = FIXED[hit]
        findings.append({"id": "FX-" + h, "property": props, "status": "fixed", "commit": h, "what": what, "subject": subj,
                         "record": ["fixed: property=%s %s %s" % (p, h, what) for p in props]})
    missing = set(FIXED) - used
    if missing:
        raise SystemExit("records without commit: %s" % missing)
    out = {"comment": "open = genuine defect still present (suppresses only its own signature); fixed = repaired by the named fix: commit in /repo, suppresses nothing. Never written at run time.",
           "findings": findings}
    json.dump(out, open(os.path.join(V, "known_findings.json"), "w"), indent=1)
    print("known_findings.json: %d open, %d fixed" % (sum(f["status"] == "open" for f in findings), sum(f["status"] == "fixed" for f in findings)))

main()
