#!/bin/bash
# usage: verify_mutant.sh <worktree> <seed-dir>   -- confirms in the scratch worktree: applies, builds (-Werror), ctest passes, demo fails with / passes without
WT=$1; D=$2
cd $WT || exit 2
git checkout -q -- . 
git apply --check $D/patch.diff || { echo "RESULT $D apply-failed"; exit 1; }
git apply $D/patch.diff
if ! cmake --build _build >/tmp/vm_$$.log 2>&1; then echo "RESULT $D build-failed"; git checkout -q -- .; exit 1; fi
if ! ctest --test-dir _build -j4 --timeout 900 >/tmp/vm_$$.log 2>&1; then echo "RESULT $D tests-failed"; git checkout -q -- .; exit 1; fi
timeout 900 sh $D/build_demo.sh >/tmp/vm_$$.log 2>&1; with=$?
git checkout -q -- .
cmake --build _build >/tmp/vm_$$.log 2>&1
timeout 900 sh $D/build_demo.sh >/tmp/vm_$$.log 2>&1; without=$?
rm -f /tmp/vm_$$.log
if [ $with -ne 0 ] && [ $without -eq 0 ]; then echo "RESULT $D confirmed with=$with without=$without"; else echo "RESULT $D NOT-confirmed with=$with without=$without"; fi
