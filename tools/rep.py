#!/usr/bin/python3
# exact replacement preserving the file's line endings: rep.py FILE <<< JSON [[old,new],...] (old/new use \n)
import sys, json
p = sys.argv[1]
s = open(p, "rb").read()
crlf = b"\r\n" in s
t = s.replace(b"\r\n", b"\n").decode("latin-1")
for ent in json.load(sys.stdin):
    old, new = ent[0], ent[1]
    want = ent[2] if len(ent) > 2 else 1
    if t.count(old) != want:
        sys.exit("pattern occurs %d times in %s: %r" % (t.count(old), p, old[:80]))
    t = t.replace(old, new)
b = t.encode("latin-1")
if crlf:
    b = b.replace(b"\n", b"\r\n")
open(p, "wb").write(b)
