# Registry of checks and the common verdict / evidence / replay logic.
import os, sys, json, time, shutil, collections
from core import *
from dictcheck import *
import props as P
import gen

REGISTRY = {}

def register(prop):
    def deco(fn):
        REGISTRY[prop] = fn
        return fn
    return deco

def workdir_for(prop):
    d = os.path.join(VERIF, ".work", "%s-%d" % (prop, os.getpid()))
    os.makedirs(d, exist_ok=True)
    return d

# ---------------------------------------------------------------------------------------------------- reporting
def write_replay(prop, skey, e):
    case = e["case"]
    rid = short_hash([skey])
    path = os.path.join(VERIF, "replays", prop, "%s-%s.json" % (re.sub(r"[^A-Za-z0-9_.-]+", "_", e["sig"]["kind"] + "_" + e["sig"]["op"] + "_" + e["sig"]["fclass"])[:60], rid))
    obj = {"property": prop, "signature": e["sig"], "count": e["count"], "detail": e["detail"], "case": case.to_json() if case is not None else None,
           "sanitizer_report": e.get("stderr", "")[:5000], "how_to_replay": "./check --replay " + os.path.relpath(path, VERIF)}
    if e.get("extra"):
        obj["extra"] = e["extra"]
    write_json_atomic(path, obj)
    return os.path.relpath(path, VERIF)

def finish(prop, tier, seed, run, wall, rule, explore=False, extra_cov=None, write_evidence=True, min_eval=1, required_classes=(), assumptions=None, exhaustive=False):
    """prints KNOWN-FINDING / VIOLATION lines, writes evidence, returns the exit code"""
    evals = sum(v for k, v in run.counters.items() if k.startswith("eval."))
    cls = {k[4:]: v for k, v in run.counters.items() if k.startswith("cls.")}
    cov = {
        "evaluations": int(evals),
        "distinct_nontrivial": len(run.nontrivial_keys),
        "rule": rule,
        "samples": run.samples[:10],
        "cases_run": run.stat["cases"], "cases_completed": run.stat["completed"], "cases_crashed": run.stat["crashed"],
        "distinct_cases": len(run.all_keys),
        "per_kind": dict(run.per_kind), "per_state": dict(run.per_state),
        "oracle_evaluations_by_op": {k[5:]: v for k, v in sorted(run.counters.items()) if k.startswith("eval.")},
        "coverage_classes": dict(sorted(cls.items())),
        "other_counters": {k: v for k, v in sorted(run.counters.items()) if not k.startswith(("eval.", "cls."))},
        "verdicts": {"new_violation_signatures": len(run.findings), "known_finding_observations": run.stat["known_observations"],
                     "blocked_by_known_finding": run.stat["blocked_by_known"], "blocked_by_unknown_crash": run.stat["blocked_by_unknown"],
                     "inconclusive_wall_clock": run.stat["inconclusive_wall"], "harness_errors": run.stat["harness_errors"]},
        "known_findings_reobserved": dict(run.known_seen),
        "sanitizer_flavors": sorted(set(c.flavor for c, _ in run.results)) if run.results else [],
        "exhaustive": exhaustive,
    }
    if not cov["samples"]:
        cov["samples"] = [c.describe() for c, _ in run.results[:5]]
    if extra_cov:
        cov.update(extra_cov)
    if explore:
        print("==== %s explore: %d cases, %d completed, %d crashed" % (prop, run.stat["cases"], run.stat["completed"], run.stat["crashed"]))
        for skey, e in sorted(list(run.findings.items()) + [("BLOCKED:" + k, v) for k, v in getattr(run, "blocked", {}).items()], key=lambda kv: -kv[1]["count"]):
            c = e["case"]
            print("%5d  %s\n         e.g. %s p=%s %s n=%d: %s" % (e["count"], skey, c.kind, c.p, c.iname, len(c.S), e["detail"][:200]))
            xd = os.environ.get("VERIF_EXPLORE_DIR")
            if xd:
                os.makedirs(xd, exist_ok=True)
                obj = {"property": prop, "signature": e["sig"], "detail": e["detail"], "case": c.to_json(), "sanitizer_report": e.get("stderr", "")[:5000]}
                write_json_atomic(os.path.join(xd, re.sub(r"[^A-Za-z0-9_.-]+", "_", skey)[:120] + ".json"), obj)
        for k, v in run.known_seen.items():
            print("known %s x%d" % (k, v))
        print("stat", dict(run.stat), getattr(run, "stat_blocked_example", ""))
        return 0
    rc = 0
    for kid, cnt in run.known_seen.items():
        ent = [e for e in run.known.entries if e["id"] == kid][0]
        print("KNOWN-FINDING: property=%s %s [%s, re-observed %d times]" % (prop, ent["what"], kid, cnt))
    nviol = 0
    for skey, e in run.findings.items():
        path = write_replay(prop, skey, e)
        print("VIOLATION property=%s replay=%s" % (prop, path))
        print("   signature: %s (x%d)  %s" % (skey, e["count"], e["detail"][:300]))
        nviol += 1
        rc = 1
    # inconclusive handling
    total = max(1, run.stat["cases"])
    problems = []
    if run.stat["harness_errors"]:
        problems.append("%d harness errors" % run.stat["harness_errors"])
    if evals < min_eval:
        problems.append("monitors observed nothing (%d evaluations)" % evals)
    inconcl = run.stat["blocked_by_unknown"] + run.stat["inconclusive_wall"]
    if inconcl * 5 > total:
        problems.append("%d of %d cases inconclusive (e.g. %s)" % (inconcl, total, getattr(run, "stat_blocked_example", "wall clock")))
    for rc_cls in required_classes:
        if cls.get(rc_cls, 0) + run.counters.get(rc_cls, 0) == 0:
            problems.append("required coverage class %s never hit" % rc_cls)
    if len(run.nontrivial_keys) < 2:
        problems.append("fewer than 2 distinct non-trivial cases completed")
    if write_evidence:
        ev = {"property_id": prop, "tier": tier, "seed": seed, "level": "exploration", "coverage": cov,
              "assumptions": assumptions or ["the reference model (sorted vector + naive search) is correct", "gcc 12 ASan/UBSan runtime reports are accurate for the code reached",
                                             "inputs are restricted to the stated valid domain and handed over exactly as Build.cpp does"],
              "wall_s": round(wall, 2), "violations": nviol}
        write_json_atomic(os.path.join(VERIF, "evidence", prop + ".json"), ev)
    if problems and rc == 0:
        print("INCONCLUSIVE property=%s: %s" % (prop, "; ".join(problems)))
        rc = 2
    print("%s %s seed=%d: %d cases (%d completed), %d oracle evaluations, %d distinct non-trivial, %d new violation signatures, %d known-finding observations, %.1fs"
          % (prop, tier, seed, run.stat["cases"], run.stat["completed"], evals, len(run.nontrivial_keys), nviol, run.stat["known_observations"], wall))
    return rc

def run_property(prop, tier, seed, explore=False, limit=0, kinds=(), write_evidence=True):
    wd = workdir_for(prop)
    try:
        return REGISTRY[prop](prop, tier, seed, wd, explore, limit, kinds, write_evidence)
    finally:
        shutil.rmtree(wd, ignore_errors=True)

def replay(path):
    obj = json.load(open(path))
    prop = obj["property"]
    if not obj.get("case"):
        print("replay file has no dictionary case; see 'extra'")
        return 2
    case = Case.from_json(obj["case"])
    build(case.flavor)
    wd = workdir_for("replay")
    try:
        run = DictRun(prop, "quick", 1, wd, Known(os.devnull))
        c, res, fs = run.run_case(case)
        hit = False
        for f in fs:
            print("observed: props=%s kind=%s state=%s op=%s fclass=%s site=%s qcls=%s :: %s" % (",".join(f["props"]), f["kind"], f["state"], f["op"], f["fclass"], f["site"], f["qcls"], f["detail"][:300]))
            if prop in f["props"] and f["fclass"] == obj["signature"]["fclass"]:
                hit = True
        if res["stderr"] and any(f["crash"] for f in fs):
            print(res["stderr"][:3000])
        print("REPRODUCED" if hit else "not reproduced")
        return 1 if hit else 0
    finally:
        shutil.rmtree(wd, ignore_errors=True)

# ---------------------------------------------------------------------------------------------------- dictionary-level
def dict_check(prop, tier, seed, wd, explore, limit, kinds, write_evidence, cases, rule, nontrivial=P.nt_fc_or_any, post=None, required=(), flavors=("asan",)):
    for fl in flavors:
        build(fl)
    known = Known()
    run = DictRun(prop, tier, seed, wd, known)
    if kinds:
        cases = [c for c in cases if c.kind in kinds]
    if limit:
        cases = cases[:limit]
    t0 = time.time()
    run.run_all(cases, nontrivial)
    extra = None
    if post:
        extra = post(run)
    return finish(prop, tier, seed, run, time.time() - t0, rule, explore=explore, write_evidence=write_evidence, required_classes=required, extra_cov=extra)

@register("C01")
def c01(prop, tier, seed, wd, explore, limit, kinds, we):
    cases = P.basic_cases(prop, seed, tier, ops=("locate", "extract"))
    rule = ("corner corpus + seeded random input sets x 13 kinds x seeded parameter vector x 2 of {fresh, own loader, generic loader}; a case is (kind, params, input set, state); "
            "non-trivial = completed case with >=2 strings and, for front-coding kinds, >=2 buckets or a partially filled last bucket; distinct by hash of (kind, params, input, state)")
    return dict_check(prop, tier, seed, wd, explore, limit, kinds, we, cases, rule)

RULE_BASE = ("corner corpus (%d fixed sets) + seeded random input sets from 22 families x kinds x seeded parameter vectors x object states; a case is (kind, params, input set, state, ops); "
             "distinct by hash of that tuple; non-trivial = completed case with >=2 strings and, for front-coding kinds, >=2 buckets or a partially filled last bucket") % len(gen.corner_corpus())

@register("C02")
def c02(prop, tier, seed, wd, explore, limit, kinds, we):
    cases = P.basic_cases(prop, seed, tier, ops=("locate_absent", "extract_badid"))
    def nt(case, cnt):
        return P.nt_fc_or_any(case, cnt) and cnt.get("absent_classes_hit", 0) >= 6
    return dict_check(prop, tier, seed, wd, explore, limit, kinds, we, cases, RULE_BASE + "; additionally >=6 distinct absent-string classes were queried in the case",
                      nontrivial=nt, required=("absent_before_first", "absent_after_last", "absent_proper_prefix", "absent_extension", "absent_between_buckets", "id_0", "id_uint_wrap", "id_size_max"))

@register("C03")
def c03(prop, tier, seed, wd, explore, limit, kinds, we):
    cases = P.basic_cases(prop, seed, tier, ops=("locate", "extract", "rank"))
    return dict_check(prop, tier, seed, wd, explore, limit, kinds, we, cases, RULE_BASE + "; order oracle on the 7 order-preserving kinds, rank oracle on every kind that answers extractRank")

@register("C04")
def c04(prop, tier, seed, wd, explore, limit, kinds, we):
    def kp(kind, r, S):
        if kind in FC:   # small buckets so that ranges start/end at every in-bucket offset
            return [(r.choice([2, 3, 4, 5, 8]),), (r.choice([2, 3, 4, 7, 16, 64, len(S) + 1]),)]
        return P.param_vectors(kind, r, S, 1)
    cases = P.basic_cases(prop, seed, tier, ops=("locatePrefix", "extractPrefix", "extract"), kinds=PREFIXK, kind_params=kp, per_input_states=1)
    def nt(case, cnt):
        return P.nt_fc_or_any(case, cnt) and cnt.get("eval.locatePrefix", 0) >= 5
    return dict_check(prop, tier, seed, wd, explore, limit, kinds, we, cases, RULE_BASE + "; prefix-capable kinds only; >=5 prefix patterns answered",
                      nontrivial=nt, required=("pfx_span1", "pfx_span2", "pfx_span_many", "pfx_ends_at_bucket_end", "pfx_none_before", "pfx_none_inside", "pfx_none_after"))

@register("C05")
def c05(prop, tier, seed, wd, explore, limit, kinds, we):
    def kp(kind, r, S):
        if kind == "FMINDEX":
            textlen = sum(len(s) + 1 for s in S)
            out = []
            for _ in range(2):
                sparse = r.choice([0, 1])
                bp = r.choice([1, 2, 4, 20, 40]) if not sparse else r.choice([1, 8, 16, 32, 128])
                out.append((sparse, bp, r.choice([1, 2, 3, 4, 8, 16, 64, textlen + 5])))
            return out
        return [()]
    cases = P.basic_cases(prop, seed, tier, ops=("locateSubstr", "extractSubstr", "extract"), kinds=["FMINDEX", "XBW"], kind_params=kp, per_input_states=2, max_n=3000)
    def nt(case, cnt):
        return len(case.S) >= 2 and cnt.get("eval.locateSubstr", 0) >= 5
    return dict_check(prop, tier, seed, wd, explore, limit, kinds, we, cases, RULE_BASE + "; FMINDEX (BWT sampling >= 1) and XBW; >=5 substring patterns answered",
                      nontrivial=nt, required=("sub_multi_occ_hit", "sub_cross_boundary", "sub_single_byte", "sub_none"))

@register("C13")
def c13(prop, tier, seed, wd, explore, limit, kinds, we):
    def kp(kind, r, S):
        if kind in FC:
            return [(r.choice([2, 3, 4, 5, 6, 7, 8]),)]
        return P.param_vectors(kind, r, S, 1)
    cases = P.basic_cases(prop, seed, tier, ops=("extractTable", "extract", "locatePrefix", "extractPrefix", "locateSubstr", "extractSubstr"), kind_params=kp, per_input_states=2)
    return dict_check(prop, tier, seed, wd, explore, limit, kinds, we, cases, RULE_BASE + "; table scan on every kind that implements it, every ID/string iterator drained with a cap of n+2")

@register("C15")
def c15(prop, tier, seed, wd, explore, limit, kinds, we):
    cases = P.basic_cases(prop, seed, tier, ops=("meta",), states=("fresh", "own", "gen", "resaved"), per_input_states=3)
    return dict_check(prop, tier, seed, wd, explore, limit, kinds, we, cases, RULE_BASE + "; states fresh, own loader, generic loader, re-saved")

@register("C14")
def c14(prop, tier, seed, wd, explore, limit, kinds, we):
    cases = P.basic_cases(prop, seed, tier, ops=("history", "meta"), per_input_states=1, max_n=2000, n_random=30 if tier == "quick" else 300)
    def nt(case, cnt):
        return len(case.S) >= 2 and cnt.get("eval.history_call", 0) >= 50
    return dict_check(prop, tier, seed, wd, explore, limit, kinds, we, cases, RULE_BASE + "; a seeded history of >=50 calls ran with repeats, failed lookups and interleaved iterators", nontrivial=nt,
                      required=("op_repeated", "iter_interleaved", "failed_lookup"))

@register("C16")
def c16(prop, tier, seed, wd, explore, limit, kinds, we):
    def kp(kind, r, S):
        if kind == "FMINDEX":
            return [(r.choice([0, 1]), r.choice([4, 16, 20]), 0)]
        return P.param_vectors(kind, r, S, 1)
    cases = P.basic_cases(prop, seed, tier, ops=("unsupported",), kind_params=kp, per_input_states=2, n_random=30 if tier == "quick" else 200)
    def nt(case, cnt):
        return cnt.get("eval.unsupported", 0) >= 1
    return dict_check(prop, tier, seed, wd, explore, limit, kinds, we, cases, RULE_BASE + "; at least one unsupported operation was called and the dictionary probed afterwards", nontrivial=nt)

@register("C08")
def c08(prop, tier, seed, wd, explore, limit, kinds, we):
    cases = P.basic_cases(prop, seed, tier, ops=("save", "meta"), states=("fresh", "own", "gen", "resaved"), per_input_states=3, n_random=36 if tier == "quick" else 300, max_n=2000)
    def nt(case, cnt):
        return len(case.S) >= 2 and cnt.get("eval.save", 0) >= 3
    return dict_check(prop, tier, seed, wd, explore, limit, kinds, we, cases, RULE_BASE + "; three saves with queries and an open iterator in between", nontrivial=nt)

@register("C07")
def c07(prop, tier, seed, wd, explore, limit, kinds, we):
    # full object life cycle through every API + forced buffer growth
    cases = P.basic_cases(prop, seed, tier, ops=(), states=("fresh", "own", "gen", "resaved", "concat"), per_input_states=2)
    for c in list(cases):
        pass
    grow = []
    for ii, (iname, S) in enumerate(P.input_sets(prop, seed, tier, n_random=30 if tier == "quick" else 200)):
        for kind in ("PFC", "RPFC", "HTFC", "HHTFC", "RPHTFC", "HASHHF"):
            r = P.rng_for(seed, prop, 50000 + ii * 10 + KINDS.index(kind))
            p = P.param_vectors(kind, r, S, 1)[0]
            grow.append(Case(kind, p, iname, S, r.choice(["fresh", "own"]), P.opt_for(kind, r), ("locate", "extract", "extractTable"), memalloc=r.choice([1, 2, 3, 16, 64, 1024]), seed=seed))
    cases += grow
    def nt(case, cnt):
        return len(case.S) >= 2
    return dict_check(prop, tier, seed, wd, explore, limit, kinds, we, cases, RULE_BASE + "; every public operation incl. unsupported ones, save, both loaders, destruction; plus MEMALLOC override cases that force Reallocate", nontrivial=nt)
