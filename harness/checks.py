# Registry of checks and the common verdict / evidence / replay logic.
import os, sys, json, time, shutil, collections
from core import *
from dictcheck import *
import props as P
import gen

REGISTRY = {}

def register(prop):
    def deco(fn):
        REGISTRY[prop] = fn
        return fn
    return deco

def workdir_for(prop):
    d = os.path.join(VERIF, ".work", "%s-%d" % (prop, os.getpid()))
    os.makedirs(d, exist_ok=True)
    return d

# ---------------------------------------------------------------------------------------------------- reporting
def write_replay(prop, skey, e):
    case = e["case"]
    rid = short_hash([skey])
    path = os.path.join(os.environ.get("VERIF_REPLAY_DIR", os.path.join(VERIF, "replays")), prop, "%s-%s.json" % (re.sub(r"[^A-Za-z0-9_.-]+", "_", e["sig"]["kind"] + "_" + e["sig"]["op"] + "_" + e["sig"]["fclass"])[:60], rid))
    obj = {"property": prop, "signature": e["sig"], "count": e["count"], "detail": e["detail"], "case": case.to_json() if case is not None else None,
           "sanitizer_report": e.get("stderr", "")[:5000], "how_to_replay": "./check --replay " + os.path.relpath(path, VERIF)}
    if e.get("extra"):
        obj["extra"] = e["extra"]
    write_json_atomic(path, obj)
    return os.path.relpath(path, VERIF)

def finish(prop, tier, seed, run, wall, rule, explore=False, extra_cov=None, write_evidence=True, min_eval=1, required_classes=(), assumptions=None, exhaustive=False):
    """prints KNOWN-FINDING / VIOLATION lines, writes evidence, returns the exit code"""
    evals = sum(v for k, v in run.counters.items() if k.startswith("eval."))
    cls = {k[4:]: v for k, v in run.counters.items() if k.startswith("cls.")}
    cov = {
        "evaluations": int(evals),
        "distinct_nontrivial": len(run.nontrivial_keys),
        "rule": rule,
        "samples": run.samples[:10],
        "cases_run": run.stat["cases"], "cases_completed": run.stat["completed"], "cases_crashed": run.stat["crashed"],
        "distinct_cases": len(run.all_keys),
        "per_kind": dict(run.per_kind), "per_state": dict(run.per_state),
        "oracle_evaluations_by_op": {k[5:]: v for k, v in sorted(run.counters.items()) if k.startswith("eval.")},
        "coverage_classes": dict(sorted(cls.items())),
        "other_counters": {k: v for k, v in sorted(run.counters.items()) if not k.startswith(("eval.", "cls."))},
        "verdicts": {"new_violation_signatures": len(run.findings), "known_finding_observations": run.stat["known_observations"],
                     "blocked_by_known_finding": run.stat["blocked_by_known"], "blocked_by_unknown_crash": run.stat["blocked_by_unknown"],
                     "inconclusive_wall_clock": run.stat["inconclusive_wall"], "harness_errors": run.stat["harness_errors"]},
        "known_findings_reobserved": dict(run.known_seen),
        "sanitizer_flavors": sorted(set(c.flavor for c, _ in run.results)) if run.results else [],
        "exhaustive": exhaustive,
    }
    if not cov["samples"]:
        cov["samples"] = [c.describe() for c, _ in run.results[:5]]
    if extra_cov:
        cov.update(extra_cov)
    if explore:
        print("==== %s explore: %d cases, %d completed, %d crashed" % (prop, run.stat["cases"], run.stat["completed"], run.stat["crashed"]))
        for skey, e in sorted(list(run.findings.items()) + [("BLOCKED:" + k, v) for k, v in getattr(run, "blocked", {}).items()], key=lambda kv: -kv[1]["count"]):
            c = e["case"]
            print("%5d  %s\n         e.g. %s p=%s %s n=%d: %s" % (e["count"], skey, c.kind, c.p, c.iname, len(c.S), e["detail"][:200]))
            xd = os.environ.get("VERIF_EXPLORE_DIR")
            if xd:
                os.makedirs(xd, exist_ok=True)
                obj = {"property": prop, "signature": e["sig"], "detail": e["detail"], "case": c.to_json(), "sanitizer_report": e.get("stderr", "")[:5000]}
                write_json_atomic(os.path.join(xd, re.sub(r"[^A-Za-z0-9_.-]+", "_", skey)[:120] + ".json"), obj)
        for k, v in run.known_seen.items():
            print("known %s x%d" % (k, v))
        print("stat", dict(run.stat), getattr(run, "stat_blocked_example", ""))
        return 0
    rc = 0
    for kid, cnt in run.known_seen.items():
        ent = [e for e in run.known.entries if e["id"] == kid][0]
        print("KNOWN-FINDING: property=%s %s [%s, re-observed %d times]" % (prop, ent["what"], kid, cnt))
    nviol = 0
    nmin = 0
    for skey, e in run.findings.items():
        # witness minimisation (ddmin over the strings, then shortening them) while the signature stays the same
        c = e.get("case")
        if isinstance(c, Case) and len(c.S) > 6 and nmin < 4 and e["sig"]["fclass"] not in ("transcript-differs", "uninit-in-image", "uninit-influences-answers", "cpu-limit", "wall-timeout", "deadlock") and not (c.cpu and c.cpu > 120):   # (every probe of a spinning case costs its whole CPU limit)
            try:
                import minimize
                nmin += 1
                mrun = DictRun(prop, tier, seed, run.workdir, Known(os.devnull))
                m = minimize.minimize(mrun, c, prop, {"fclass": e["sig"]["fclass"], "op": e["sig"]["op"], "site": e["sig"]["site"] if e["sig"]["site"] != "oracle" else None}, budget_s=25)
                if len(m.S) < len(c.S):
                    e["extra"] = {"original_input": c.iname, "original_n": len(c.S), "minimised_n": len(m.S)}
                    e["case"] = m
            except Exception as ex:
                log("[minimise] failed: %s" % ex)
        path = write_replay(prop, skey, e)
        print("VIOLATION property=%s replay=%s" % (prop, path))
        print("   signature: %s (x%d)  %s" % (skey, e["count"], e["detail"][:300]))
        nviol += 1
        rc = 1
    # inconclusive handling
    total = max(1, run.stat["cases"])
    problems = []
    if run.stat["harness_errors"]:
        problems.append("%d harness errors" % run.stat["harness_errors"])
    if evals < min_eval:
        problems.append("monitors observed nothing (%d evaluations)" % evals)
    inconcl = run.stat["blocked_by_unknown"] + run.stat["inconclusive_wall"]
    if inconcl * 5 > total:
        problems.append("%d of %d cases inconclusive (e.g. %s)" % (inconcl, total, getattr(run, "stat_blocked_example", "wall clock")))
    for rc_cls in required_classes:
        if cls.get(rc_cls, 0) + run.counters.get(rc_cls, 0) == 0:
            problems.append("required coverage class %s never hit" % rc_cls)
    if len(run.nontrivial_keys) < 2:
        problems.append("fewer than 2 distinct non-trivial cases completed")
    if write_evidence:
        ev = {"property_id": prop, "tier": tier, "seed": seed, "level": "exploration", "coverage": cov,
              "assumptions": assumptions or ["the reference model (sorted vector + naive search) is correct", "gcc 12 ASan/UBSan runtime reports are accurate for the code reached",
                                             "inputs are restricted to the stated valid domain and handed over exactly as Build.cpp does"],
              "wall_s": round(wall, 2), "violations": nviol}
        write_json_atomic(os.path.join(VERIF, "evidence", prop + ".json"), ev)
    if problems and rc == 0:
        print("INCONCLUSIVE property=%s: %s" % (prop, "; ".join(problems)))
        rc = 2
    print("%s %s seed=%d: %d cases (%d completed), %d oracle evaluations, %d distinct non-trivial, %d new violation signatures, %d known-finding observations, %.1fs"
          % (prop, tier, seed, run.stat["cases"], run.stat["completed"], evals, len(run.nontrivial_keys), nviol, run.stat["known_observations"], wall))
    return rc

def run_property(prop, tier, seed, explore=False, limit=0, kinds=(), write_evidence=True):
    wd = workdir_for(prop)
    try:
        return REGISTRY[prop](prop, tier, seed, wd, explore, limit, kinds, write_evidence)
    finally:
        shutil.rmtree(wd, ignore_errors=True)

def replay(path):
    obj = json.load(open(path))
    prop = obj["property"]
    if not obj.get("case"):
        print("replay file has no case; see 'extra'")
        return 2
    if obj["case"].get("driver") == "pool_driver":
        from poolcheck import PoolRun, PoolCase
        cj = obj["case"]
        case = PoolCase(cj["mode"], cj["flavor"], cj["seed"], cj["args"], cj.get("input", ""), unb64list(cj.get("S_b64", [])))
        build(case.flavor)
        wd = workdir_for("replay")
        try:
            hit = False
            for attempt in range(20):   # the seed reproduces the delay plan, not the OS interleaving: up to 20 attempts
                run = PoolRun(prop, "quick", 1, wd, Known(os.devnull))
                run.record_pool(run.run_pool_case(case))
                for skey, e in run.findings.items():
                    print("attempt %d observed: %s :: %s" % (attempt + 1, skey, e["detail"][:300]))
                    if e["sig"]["fclass"] == obj["signature"]["fclass"]:
                        hit = True
                if hit:
                    break
            print("REPRODUCED" if hit else "not reproduced in 20 attempts")
            return 1 if hit else 0
        finally:
            shutil.rmtree(wd, ignore_errors=True)
    if obj["case"].get("driver") == "comp_driver":
        cj = obj["case"]
        case = CompCase(cj["mode"], cj["flavor"], cj["seed"], cj["args"], cj.get("tag", ""))
        case.cold = bool(cj.get("cold"))
        build(case.flavor)
        wd = workdir_for("replay")
        try:
            run = CompRun(prop, "quick", 1, wd, Known(os.devnull))
            run.record_pool(run.run_pool_case(case))
            hit = False
            for skey, e in run.findings.items():
                print("observed: %s :: %s" % (skey, e["detail"][:300]))
                if e["sig"]["fclass"] == obj["signature"]["fclass"]:
                    hit = True
            print("REPRODUCED" if hit else "not reproduced")
            return 1 if hit else 0
        finally:
            shutil.rmtree(wd, ignore_errors=True)
    case = Case.from_json(obj["case"])
    build(case.flavor)
    wd = workdir_for("replay")
    try:
        run = DictRun(prop, "quick", 1, wd, Known(os.devnull))
        c, res, fs = run.run_case(case)
        hit = False
        for f in fs:
            print("observed: props=%s kind=%s state=%s op=%s fclass=%s site=%s qcls=%s :: %s" % (",".join(f["props"]), f["kind"], f["state"], f["op"], f["fclass"], f["site"], f["qcls"], f["detail"][:300]))
            if prop in f["props"] and f["fclass"] == obj["signature"]["fclass"]:
                hit = True
        if res["stderr"] and any(f["crash"] for f in fs):
            print(res["stderr"][:3000])
        print("REPRODUCED" if hit else "not reproduced")
        return 1 if hit else 0
    finally:
        shutil.rmtree(wd, ignore_errors=True)

# ---------------------------------------------------------------------------------------------------- dictionary-level
def dict_check(prop, tier, seed, wd, explore, limit, kinds, write_evidence, cases, rule, nontrivial=P.nt_fc_or_any, post=None, required=(), flavors=("asan",)):
    for fl in sorted(set(flavors) | set(c.flavor for c in cases)):
        build(fl)
    known = Known()
    run = DictRun(prop, tier, seed, wd, known)
    if kinds:
        cases = [c for c in cases if c.kind in kinds]
    if limit:
        cases = cases[:limit]
    t0 = time.time()
    run.run_all(cases, nontrivial)
    extra = None
    if post:
        extra = post(run)
    return finish(prop, tier, seed, run, time.time() - t0, rule, explore=explore, write_evidence=write_evidence, required_classes=required, extra_cov=extra)

@register("C01")
def c01(prop, tier, seed, wd, explore, limit, kinds, we):
    cases = P.basic_cases(prop, seed, tier, ops=("locate", "extract"))
    cases += P.boundary_sweep(prop, seed, tier, ("locate", "extract"), states=("own", "fresh", "resaved"))
    cases += P.hash_sweep(prop, seed, tier, ("locate", "extract"), overheads=(0, 10))
    cases += P.numeral_sweep(prop, seed, tier, ("locate", "extract"))
    rule = ("every dictionary size 1..34 x bucket sizes 2,3,4,8 for the five front-coding kinds (boundary sweep); corner corpus + seeded random input sets x 13 kinds x seeded parameter vector x 2 of {fresh, own loader, generic loader}; a case is (kind, params, input set, state); "
            "non-trivial = completed case with >=2 strings and, for front-coding kinds, >=2 buckets or a partially filled last bucket; distinct by hash of (kind, params, input, state)")
    req = () if (kinds or limit) else ("in_n1", "in_n2", "in_n_mult_b", "in_n_mult_b_plus1", "in_last_bucket_partial", "in_buckets_ge3", "in_lcp_ge128", "in_lcp_127_128_129", "in_lcp_mult128",
                                       "in_len_127_128_129", "in_byte_02", "in_byte_FE", "in_all_len1", "in_last_len1", "in_member_is_proper_prefix", "in_text_ge_128KiB")
    return dict_check(prop, tier, seed, wd, explore, limit, kinds, we, cases, rule, required=req)

RULE_BASE = ("corner corpus (%d fixed sets) + seeded random input sets from %d families x kinds x seeded parameter vectors x object states; a case is (kind, params, input set, state, ops); "
             "distinct by hash of that tuple; non-trivial = completed case with >=2 strings and, for front-coding kinds, >=2 buckets or a partially filled last bucket") % (len(gen.corner_corpus()), len(gen.FAMILIES))

@register("C02")
def c02(prop, tier, seed, wd, explore, limit, kinds, we):
    cases = P.basic_cases(prop, seed, tier, ops=("locate_absent", "extract_badid"))
    cases += P.boundary_sweep(prop, seed, tier, ("locate_absent", "extract_badid"), bsizes=(2, 4))
    def nt(case, cnt):
        return P.nt_fc_or_any(case, cnt) and cnt.get("absent_classes_hit", 0) >= 6
    return dict_check(prop, tier, seed, wd, explore, limit, kinds, we, cases, RULE_BASE + "; additionally >=6 distinct absent-string classes were queried in the case",
                      nontrivial=nt, required=("absent_before_first", "absent_after_last", "absent_proper_prefix", "absent_extension", "absent_between_buckets", "id_0", "id_uint_wrap", "id_size_max"))

@register("C03")
def c03(prop, tier, seed, wd, explore, limit, kinds, we):
    cases = P.basic_cases(prop, seed, tier, ops=("locate", "extract", "rank"))
    cases += P.boundary_sweep(prop, seed, tier, ("locate", "extract", "rank"), bsizes=(2, 4, 8))
    cases += P.numeral_sweep(prop, seed, tier, ("locate", "extract"))
    return dict_check(prop, tier, seed, wd, explore, limit, kinds, we, cases, RULE_BASE + "; order oracle on the 7 order-preserving kinds, rank oracle on every kind that answers extractRank")

@register("C04")
def c04(prop, tier, seed, wd, explore, limit, kinds, we):
    def kp(kind, r, S):
        if kind in FC:   # small buckets so that ranges start/end at every in-bucket offset
            return [(r.choice([2, 3, 4, 5, 8]),), (r.choice([2, 3, 4, 7, 16, 64, len(S) + 1 if len(S) <= 3000 else 1024]),)]
        return P.param_vectors(kind, r, S, 1)
    cases = P.basic_cases(prop, seed, tier, ops=("locatePrefix", "extractPrefix", "extract"), kinds=PREFIXK, kind_params=kp, per_input_states=1)
    cases += P.boundary_sweep(prop, seed, tier, ("locatePrefix", "extractPrefix"), bsizes=(2, 3, 4))
    def nt(case, cnt):
        return P.nt_fc_or_any(case, cnt) and cnt.get("eval.locatePrefix", 0) >= 5
    return dict_check(prop, tier, seed, wd, explore, limit, kinds, we, cases, RULE_BASE + "; prefix-capable kinds only; >=5 prefix patterns answered",
                      nontrivial=nt, required=("pfx_span1", "pfx_span2", "pfx_span_many", "pfx_ends_at_bucket_end", "pfx_none_before", "pfx_none_inside", "pfx_none_after"))

@register("C05")
def c05(prop, tier, seed, wd, explore, limit, kinds, we):
    def kp(kind, r, S):
        if kind == "FMINDEX":
            textlen = sum(len(s) + 1 for s in S)
            out = []
            for _ in range(2):
                sparse = r.choice([0, 1])
                bp = r.choice([1, 2, 4, 20, 40]) if not sparse else r.choice([1, 8, 16, 32, 128])
                out.append((sparse, bp, r.choice([1, 2, 3, 4, 8, 16, 64, textlen + 5])))
            return out
        return [()]
    cases = P.basic_cases(prop, seed, tier, ops=("locateSubstr", "extractSubstr", "extract"), kinds=["FMINDEX", "XBW"], kind_params=kp, per_input_states=2, max_n=3000)
    def nt(case, cnt):
        return len(case.S) >= 2 and cnt.get("eval.locateSubstr", 0) >= 5
    return dict_check(prop, tier, seed, wd, explore, limit, kinds, we, cases, RULE_BASE + "; FMINDEX (BWT sampling >= 1) and XBW; >=5 substring patterns answered",
                      nontrivial=nt, required=("sub_multi_occ_hit", "sub_cross_boundary", "sub_single_byte", "sub_none"))

@register("C13")
def c13(prop, tier, seed, wd, explore, limit, kinds, we):
    def kp(kind, r, S):
        if kind in FC:   # small buckets: scans start at every in-bucket offset; large ones: long runs of internal strings
            return [(r.choice([2, 3, 4, 5, 6, 7, 8]),), (r.choice([16, 32, 64, len(S) + 1 if len(S) <= 3000 else 1024]),)]
        return P.param_vectors(kind, r, S, 1)
    cases = P.basic_cases(prop, seed, tier, ops=("extractTable", "extract", "locatePrefix", "extractPrefix", "locateSubstr", "extractSubstr"), kind_params=kp, per_input_states=1)
    cases += P.basic_cases(prop, seed + 7919, tier, ops=("extractTable", "extract", "locatePrefix", "extractPrefix", "locateSubstr", "extractSubstr"), kinds=[k for k in KINDS if k not in FC], per_input_states=1, corner=False)
    cases += P.boundary_sweep(prop, seed, tier, ("extractTable", "extractPrefix"), bsizes=(2, 3, 4))
    return dict_check(prop, tier, seed, wd, explore, limit, kinds, we, cases, RULE_BASE + "; table scan on every kind that implements it, every ID/string iterator drained with a cap of n+2")

@register("C15")
def c15(prop, tier, seed, wd, explore, limit, kinds, we):
    cases = P.basic_cases(prop, seed, tier, ops=("meta",), states=("fresh", "own", "gen", "resaved"), per_input_states=3)
    # lengths beyond 16 bits: a metadata field narrowed in one save/load pair only shows for such strings
    r = P.rng_for(seed, prop, 77)
    huge = gen.norm([b"a", b"b" + bytes(r.choice(b"cdefg") for _ in range(70000)), b"c", b"b" * 65535, b"ab"])
    for kind in KINDS:
        if kind == "XBW":
            continue
        p = P.param_vectors(kind, r, huge, 1)[0]
        if kind == "FMINDEX":
            p = (p[0], p[1], 0)
        for st in (("fresh", "own") if kind == "BLOCKS" else ("own", "gen")):
            cases.append(Case(kind, p, "huge70000", huge, st, P.opt_for(kind, r), ("meta",), seed=seed, cpu=900))
    return dict_check(prop, tier, seed, wd, explore, limit, kinds, we, cases, RULE_BASE + "; states fresh, own loader, generic loader, re-saved")

@register("C14")
def c14(prop, tier, seed, wd, explore, limit, kinds, we):
    cases = P.basic_cases(prop, seed, tier, ops=("history", "meta"), per_input_states=2, max_n=2000, n_random=30 if tier == "quick" else 300)
    for i, c in enumerate(cases):   # every other case next to a different dictionary of the same kind that is searched first
        if i % 2 == 1 and c.state not in ("cold", "coldgen"):
            c.extra = tuple(c.extra) + ("--neighbour",)
    def nt(case, cnt):
        return len(case.S) >= 2 and cnt.get("eval.history_call", 0) >= 50
    return dict_check(prop, tier, seed, wd, explore, limit, kinds, we, cases, RULE_BASE + "; a seeded history of >=50 calls ran with repeats, failed lookups and interleaved iterators", nontrivial=nt,
                      required=("op_repeated", "iter_interleaved", "failed_lookup", "neighbour_dictionary", "survives_copy_destruction"))

@register("C16")
def c16(prop, tier, seed, wd, explore, limit, kinds, we):
    def kp(kind, r, S):
        if kind == "FMINDEX":
            return [(r.choice([0, 1]), r.choice([4, 16, 20]), 0)]
        return P.param_vectors(kind, r, S, 1)
    cases = P.basic_cases(prop, seed, tier, ops=("unsupported",), kind_params=kp, per_input_states=2, n_random=30 if tier == "quick" else 200)
    def nt(case, cnt):
        return cnt.get("eval.unsupported", 0) >= 1
    return dict_check(prop, tier, seed, wd, explore, limit, kinds, we, cases, RULE_BASE + "; at least one unsupported operation was called and the dictionary probed afterwards", nontrivial=nt)

@register("C08")
def c08(prop, tier, seed, wd, explore, limit, kinds, we):
    cases = P.basic_cases(prop, seed, tier, ops=("save", "meta"), states=("fresh", "own", "gen", "resaved"), per_input_states=3, n_random=36 if tier == "quick" else 300, max_n=2000)
    cases += fill_cases(prop, seed, tier, ("final_image", "meta"), n_random=40 if tier == "quick" else 300)
    def nt(case, cnt):
        return len(case.S) >= 2 and (cnt.get("eval.save", 0) >= 3 or "fill" in case.tags)
    def post(run):
        return fill_compare(run, prop)
    return dict_check(prop, tier, seed, wd, explore, limit, kinds, we, cases, RULE_BASE + "; three saves with queries and an open iterator in between; re-saved images reloaded and checked against the model; "
                      "two independent builds under different heap fill bytes must give byte-identical images (no uninitialised memory in the image)", nontrivial=nt, post=post, required=("fill_differential",))

def fill_cases(prop, seed, tier, ops, n_random=12):
    """the same case under two different heap fill patterns: any difference is uninitialised memory influencing results or reaching the image"""
    out = []
    sets = P.input_sets(prop, seed, tier, n_random=n_random, max_n=1500)
    for ii, (iname, S) in enumerate(sets):
        for kind in KINDS:
            if kind == "XBW" and not P.xbw_ok(S):
                continue
            r = P.rng_for(seed, prop, 40000 + ii * 100 + KINDS.index(kind))
            p = P.param_vectors(kind, r, S, 1)[0]
            if kind == "BLOCKS":
                p = (p[0], p[1], 1)   # one worker: the allocation order is then deterministic too
            for fill in (0x41, 0xBE):
                out.append(Case(kind, p, iname, S, "fresh", 1, ops, seed=gen.splitmix(seed, ii, 17), tags=("fill", "fill%d" % fill),
                                env={"ASAN_OPTIONS": "+max_malloc_fill_size=1073741824:malloc_fill_byte=%d" % fill}))
    # stems x tiny suffixes in buckets of 2..4 (the chunk that ends the last bucket header reaches the end of the text), 4000 strings
    for v in range(96 if tier == "quick" else 500):
        r = P.rng_for(seed, prop, 47000 + v)
        S = gen.fam_stempairs(r, r.choice([400, 2000, 4000, 6000]))
        for kind in (("HTFC", "HHTFC", "RPHTFC") if v % 4 == 0 else ("HHTFC",)):
            for b in ((2, r.choice([3, 4])) if v % 3 == 0 else (2,)):
                for fill in (0x41, 0xBE):
                    out.append(Case(kind, (b,), "stempairs:%d:%d" % (len(S), v), S, "fresh", 1, ops, seed=gen.splitmix(seed, v, 19), tags=("fill", "fill%d" % fill),
                                    env={"ASAN_OPTIONS": "+max_malloc_fill_size=1073741824:malloc_fill_byte=%d" % fill}))
    return out

def fill_compare(run, prop, answers=False):
    groups = collections.OrderedDict()
    for case, res in run.results:
        if "fill" in case.tags and res["status"] == "ok":
            groups.setdefault((case.kind, case.p, case.ihash(), case.seed), []).append((case, res["out"]))
    n = 0
    for key, mem in groups.items():
        if len(mem) != 2:
            continue
        (ca, oa), (cb, ob) = mem
        n += 1
        ia, ib = oa["images"].get("final"), ob["images"].get("final")
        if ia and ib and ia != ib:
            sig = dict(property=prop, kind=ca.kind, state="fresh", op="save", fclass="uninit-in-image", site="oracle", qcls="fill-differential")
            run.add_finding(sig, ca, "images of two builds differ under heap fill bytes 0x41 / 0xBE (len %d vs %d): uninitialised memory reaches the image" % (ia[1], ib[1]))
        if answers:
            for sec in sorted(set(oa["tsec"]) & set(ob["tsec"])):
                if oa["tsec"][sec][0] != ob["tsec"][sec][0]:
                    sig = dict(property=prop, kind=ca.kind, state="fresh", op=sec, fclass="uninit-influences-answers", site="oracle", qcls="fill-differential")
                    run.add_finding(sig, ca, "section %s differs between heap fill bytes 0x41 and 0xBE" % sec)
    run.counters["eval.fill_differential_pairs"] += n
    run.counters["cls.fill_differential"] += n
    return {"fill_differential_pairs": n}

@register("C07")
def c07(prop, tier, seed, wd, explore, limit, kinds, we):
    # full object life cycle through every API + forced buffer growth
    cases = P.basic_cases(prop, seed, tier, ops=(), states=("fresh", "own", "gen", "resaved", "concat", "survivor", "heir", "cold", "coldgen"), per_input_states=4)
    for c in list(cases):
        pass
    grow = []
    for ii, (iname, S) in enumerate(P.input_sets(prop, seed, tier, n_random=30 if tier == "quick" else 200)):
        for kind in ("PFC", "RPFC", "HTFC", "HHTFC", "RPHTFC", "HASHHF"):
            r = P.rng_for(seed, prop, 50000 + ii * 10 + KINDS.index(kind))
            p = P.param_vectors(kind, r, S, 1)[0]
            grow.append(Case(kind, p, iname, S, r.choice(["fresh", "own"]), P.opt_for(kind, r), ("locate", "extract", "extractTable"), memalloc=r.choice([1, 2, 3, 16, 64, 1024]), seed=seed))
    cases += grow
    cases += P.boundary_sweep(prop, seed, tier, ("locate", "extract", "extractTable"), states=("own", "gen", "resaved"))
    cases += fill_cases(prop, seed, tier, ("locate", "extract", "locate_absent", "extractTable", "final_image", "meta"), n_random=12 if tier == "quick" else 100)
    def nt(case, cnt):
        return len(case.S) >= 2
    def post(run):
        return fill_compare(run, prop, answers=True)
    return dict_check(prop, tier, seed, wd, explore, limit, kinds, we, cases, RULE_BASE + "; every public operation incl. unsupported ones, save, both loaders, destruction; MEMALLOC override cases that force Reallocate; "
                      "boundary sweep of dictionary sizes; malloc-fill differential (same case under two heap fill bytes must give identical transcripts and images)", nontrivial=nt, post=post,
                      required=("growth_n",))

# ---------------------------------------------------------------------------------------------------- transcript differencing
def compare_groups(run, prop, key_fn, comparable_fn, what):
    """post hook: cases with the same key must have equal transcript sections; comparable_fn(a, b, section) -> 'raw' | 'norm' | None"""
    groups = collections.OrderedDict()
    for case, res in run.results:
        if res["status"] != "ok":
            continue
        groups.setdefault(key_fn(case), []).append((case, res["out"]["tsec"]))
    ncmp = 0
    ngroups = 0
    for key, members in groups.items():
        if len(members) < 2:
            continue
        ngroups += 1
        # per section: every member is compared with the first earlier member it is comparable with (a member that is comparable
        # with none becomes a further reference), so that e.g. two FM-index configurations are compared with each other even when
        # the first member of the group has no such section
        refs = {}
        for case, ts in members:
            for sec in sorted(ts):
                lst = refs.setdefault(sec, [])
                done = False
                for base_case, base in lst:
                    mode = comparable_fn(base_case, case, sec)
                    if not mode:
                        continue
                    done = True
                    ncmp += 1
                    a, b = base[sec], ts[sec]
                    same = (a[0] == b[0] and a[2] == b[2]) if mode == "raw" else (a[1] == b[1])
                    if not same:
                        sig = dict(property=prop, kind=case.kind, state=case.state, op=sec, fclass="transcript-differs", site="oracle", qcls=what)
                        run.add_finding(sig, case, "section %s (%s) of %s differs from %s p=%s state=%s opt=%d on input %s"
                                        % (sec, mode, "%s p=%s state=%s opt=%d" % (case.kind, case.p, case.state, case.opt), base_case.kind, base_case.p, base_case.state, base_case.opt, case.iname))
                    break
                if not done:
                    lst.append((case, ts))
    run.counters["eval.transcript_comparison"] += ncmp
    return {"transcript_groups_compared": ngroups, "transcript_section_comparisons": ncmp}

@register("C06")
def c06(prop, tier, seed, wd, explore, limit, kinds, we):
    cases = []
    sets = P.input_sets(prop, seed, tier, n_random=30 if tier == "quick" else 300, max_n=3000)
    for ii, (iname, S) in enumerate(sets):
        for kind in KINDS:
            if kind == "XBW" and not P.xbw_ok(S):
                continue
            r = P.rng_for(seed, prop, ii * 100 + KINDS.index(kind))
            p = P.param_vectors(kind, r, S, 1)[0]
            if kind == "FMINDEX" and not P.fm_ok(S, p):
                p = (p[0], p[1], 4)
            cseed = gen.splitmix(seed, ii, 11)
            states = [("fresh", 1), ("own", 1), ("concat", 1)]
            states.append(("cold", 1))
            states.append(("heir", 1))
            states.append(("survivor", 1))
            if kind != "BLOCKS":
                states.append(("gen", 1))
                states.append(("coldgen", 1))
            if kind in ("HASHHF", "HASHRPF"):
                states += [("own", 2), ("gen", 3), ("own", 3), ("cold", 3), ("coldgen", 2)]
            for st, opt in states:
                cases.append(Case(kind, p, iname, S, st, opt, (), big=(tier == "thorough"), seed=cseed, group=(kind, p, iname)))
    def cmpfn(a, b, sec):
        return "raw"
    def post(run):
        return compare_groups(run, prop, lambda c: (c.kind, c.p, c.ihash(), c.seed), cmpfn, "state-vs-state")
    def nt(case, cnt):
        return case.state != "fresh" and len(case.S) >= 2
    return dict_check(prop, tier, seed, wd, explore, limit, kinds, we, cases,
                      RULE_BASE + "; each (kind, params, input) is run fresh, through its own loader, through the generic loader, from a concatenation of two images, with load options 1..3 for HASHHF/HASHRPF, side by side with the built object which is then destroyed ('heir') or which outlives the loaded copy ('survivor'), and 'cold': the image is written to a file by one process and loaded (own / generic loader) by another process that builds nothing; "
                      "all transcripts (every locate/extract/absent/bad-id/rank/prefix/substring/table answer) must be equal and agree with the model; non-trivial = loaded state with >= 2 strings",
                      nontrivial=nt, post=post, required=("concat_images", "cold_load"))

@register("C12")
def c12(prop, tier, seed, wd, explore, limit, kinds, we):
    cases = []
    sets = P.input_sets(prop, seed, tier, n_random=24 if tier == "quick" else 200, max_n=3000)
    for ii, (iname, S) in enumerate(sets):
        n = len(S)
        textlen = sum(len(s) + 1 for s in S)
        cseed = gen.splitmix(seed, ii, 13)
        qbs = 4
        for kind in KINDS:
            if kind == "XBW":
                continue    # a single configuration: nothing to compare
            r = P.rng_for(seed, prop, ii * 100 + KINDS.index(kind))
            if kind in FC:
                pvs = [(0,), (1,), (2,)] + [(b,) for b in r.sample([3, 4, 5, 7, 8, 16, 64, max(2, n - 1), max(2, n), n + 1, 4096], 2)]
            elif kind in ("HASHHF", "HASHRPF", "HASHUFFDAC", "HASHRPDAC"):
                pvs = [(o,) for o in r.sample([0, 1, 10, 25, 50, 100, 300], 3)]
            elif kind == "BLOCKS":
                cuts = [1, min(len(s) for s in S) + 1, max(1, textlen // 2), max(1, textlen // 3), max(1, textlen // 7), textlen + 10]
                pvs = [(r.choice([0, 25, 100]), c, t) for c, t in zip(r.sample(cuts, 3), r.sample([1, 2, 3, 4, 8], 3))]
            elif kind == "FMINDEX":
                pvs = [(0, r.choice([1, 2, 3, 4, 20, 40]), r.choice([1, 2, 3, 4])), (1, r.choice([1, 8, 16, 32, 128]), r.choice([8, 16, 64, textlen + 5])), (1, r.choice([3, 5, 7]), r.choice([0, 2, 5])), (r.choice([0, 1]), 20, 0)]
            else:
                pvs = [()]
            for p in pvs:
                if kind == "FMINDEX" and not P.fm_ok(S, p):
                    p = (p[0], p[1], 8)
                st = r.choice(["own", "fresh"])
                opts = [1] if kind not in ("HASHHF", "HASHRPF") or st == "fresh" else [r.choice([1, 2, 3])]
                for opt in opts:
                    cases.append(Case(kind, p, iname, S, st, opt, (), big=(tier == "thorough"), seed=cseed, extra=("--qbs", str(qbs)), tags=("clamp",) if kind in FC and p[0] < 2 else ()))
    cases += P.hash_sweep(prop, seed, tier, ("locate", "extract", "locate_absent", "extractTable", "meta"))
    RAW_SECS = {"locate", "extract", "absent", "badid", "rank", "table", "locatePrefix", "extractPrefix", "locateSubstr", "extractSubstr"}
    def cmpfn(a, b, sec):
        if a.kind in ORDERED and b.kind in ORDERED:
            if sec in ("locatePrefix", "extractPrefix", "locateSubstr", "extractSubstr") and (a.kind != b.kind and not (a.kind in FC + ["RPDAC", "FMINDEX"] and b.kind in FC + ["RPDAC", "FMINDEX"])):
                return None
            return "raw" if sec in RAW_SECS else "norm"
        if a.kind == b.kind and a.p == b.p:
            return "raw" if sec in RAW_SECS else "norm"
        return "norm" if sec in ("meta", "locate", "absent", "badid", "table") else None
    def post(run):
        return compare_groups(run, prop, lambda c: (c.ihash(), c.seed), cmpfn, "params-vs-params")
    def nt(case, cnt):
        return len(case.S) >= 2
    return dict_check(prop, tier, seed, wd, explore, limit, kinds, we, cases,
                      RULE_BASE + "; every input is built under several parameter vectors per kind (bucket sizes incl. 0 and 1 for the clamp, overheads, bitmap kinds/samplings, BWT samplings, cut sizes, thread counts, load options) with "
                      "identical query sets (--qbs); raw transcripts (IDs included) must agree across all order-preserving kinds and parameters, normalised transcripts across hash kinds",
                      nontrivial=nt, post=post)

_c16_dict = REGISTRY["C16"]
@register("C16")
def c16_full(prop, tier, seed, wd, explore, limit, kinds, we):
    def kp(kind, r, S):
        if kind == "FMINDEX":
            return [(r.choice([0, 1]), r.choice([4, 16, 20]), 0)]
        return P.param_vectors(kind, r, S, 1)
    cases = P.basic_cases(prop, seed, tier, ops=("unsupported",), kind_params=kp, per_input_states=2, n_random=30 if tier == "quick" else 200)
    # loaders: every own loader on an image of every other kind; generic loader on unknown tags
    sets = P.input_sets(prop, seed, tier, n_random=6 if tier == "quick" else 40, max_n=500)
    pick = [s for i, s in enumerate(sets) if i % 9 == 0][:10 if tier == "quick" else 40]
    for ii, (iname, S) in enumerate(pick):
        for kind in KINDS:
            if kind == "XBW" and not P.xbw_ok(S):
                continue
            r = P.rng_for(seed, prop, 70000 + ii * 100 + KINDS.index(kind))
            p = P.param_vectors(kind, r, S, 1)[0]
            cases.append(Case(kind, p, iname, S, "own", 1, ("foreign_loaders", "bad_tags", "meta"), seed=seed, extra=("--tag-from", "0", "--tag-to", "4096", "--tag-random", "20000" if tier == "quick" else "200000")))
    exhaustive = False
    if tier == "thorough":
        # all 2^32 type tags, partitioned over 64 processes of the optimised flavor
        S = gen.corner_corpus()[2][1]
        step = (1 << 32) // 64
        for k in range(64):
            cases.append(Case("PFC", (4,), "chain3", S, "own", 1, ("bad_tags", "meta"), seed=seed, flavor="fast", cpu=900,
                              extra=("--tag-from", str(k * step), "--tag-to", str((k + 1) * step if k < 63 else (1 << 32)), "--tag-random", "0")))
        exhaustive = True
    def nt(case, cnt):
        return cnt.get("eval.unsupported", 0) + cnt.get("eval.foreign_loader", 0) + cnt.get("eval.bad_tag", 0) >= 1
    rule = (RULE_BASE + "; at least one unsupported operation / foreign loader / unknown tag was exercised. Loader part: 12 foreign own-loaders per image; generic loader on tags 0..4095, "
            "neighbours of the known tags and random tags (quick), all 2^32 tags except the 12 dispatchable ones (thorough, exhaustive for that sub-space)")
    fl = ("asan", "fast") if tier == "thorough" else ("asan",)
    for f in fl:
        build(f)
    known = Known()
    run = DictRun(prop, tier, seed, wd, known)
    if kinds:
        cases = [c for c in cases if c.kind in kinds]
    if limit:
        cases = cases[:limit]
    t0 = time.time()
    run.run_all(cases, nt)
    return finish(prop, tier, seed, run, time.time() - t0, rule, explore=explore, write_evidence=we, extra_cov={"all_2p32_tags_enumerated": exhaustive})

# ---------------------------------------------------------------------------------------------------- concurrency (pool_driver)
from poolcheck import PoolRun, PoolCase

def block_inputs(prop, seed, tier):
    r = P.rng_for(seed, prop, 5)
    sets = [("words66", P.WORDS), ("repo53", dict(gen.corner_corpus())["repo53"]), ("numerals150", gen.fam_numerals(r, 150)),
            ("urls", gen.fam_urls(r, 80)), ("near", gen.fam_near(r, 40)), ("uniform4", gen.fam_uniform(r, 120, "a4", 1, 10)), ("chain", gen.fam_chain(r, 40)),
            ("len1", gen.fam_len1(r, 60)), ("two", [b"a", b"b"]), ("last_single", gen.fam_last_single(r, 48))]
    if tier == "thorough":
        sets += [("numerals1000", dict(gen.corner_corpus())["numerals1000"]), ("urls2000", gen.fam_urls(r, 2000)), ("words2000", gen.fam_words(r, 2000)), ("numerals20000", gen.fam_numerals(r, 20000))]
    return sets

def conc_finish(prop, tier, seed, run, wall, rule, explore, we, required, extra):
    run.counters["distinct_completion_orders"] = len(run.orders)
    extra = dict(extra or {})
    extra.update({"distinct_completion_orders": len(run.orders), "tsan_distinct_reports": {"%s@%s" % k: v for k, v in run.tsan_seen.items()}})
    return finish(prop, tier, seed, run, wall, rule, explore=explore, write_evidence=we, required_classes=required, extra_cov=extra,
                  assumptions=["hook events are recorded lock-free and read only after all threads were joined", "delays are injected at the LIBCSD_VERIF schedule points and (plain flavor) before pthread_cond_wait blocks",
                               "deadlock = every thread of the process blocked in futex with unchanged context-switch and CPU counters for > 1 s (scheduler state, not a deadline)",
                               "ThreadSanitizer models std::mutex / condition_variable / thread join, the only synchronisation used"])

@register("C10")
def c10(prop, tier, seed, wd, explore, limit, kinds, we):
    build("plain"); build("tsan")
    run = PoolRun(prop, tier, seed, wd, Known())
    nproc = 16
    per = 140 if tier == "quick" else 6500
    cases = []
    for k in range(nproc):
        cases.append(PoolCase("pool", "plain", gen.splitmix(seed, 10, k), ["--lifecycles", str(per), "--delay-us", str([300, 600, 1200, 100][k % 4]), "--window", "1", "--maxworkers", "8", "--maxtasks", "64"]))
    for k in range(8 if tier == "quick" else 16):
        cases.append(PoolCase("pool", "plain", gen.splitmix(seed, 11, k), ["--lifecycles", str(per * 2), "--delay-us", "0", "--window", "0"]))   # no injected delay at all: the OS schedule
    for k in range(8 if tier == "quick" else 16):
        cases.append(PoolCase("pool", "tsan", gen.splitmix(seed, 12, k), ["--lifecycles", str(per // 2), "--delay-us", "150", "--window", "0"]))
    if limit:
        cases = cases[:limit]
    wall = run.run_pool_all(cases)
    rule = ("a case is one pool_driver process running N seeded pool lifecycles (1-8 workers, 0-64 tasks and backlogs of 70-470 tasks, seven producer protocols: add-all/stop/wait, wait-for-completion then stop, a task stops the pool, tasks trickling in, running tasks handing over further tasks after the stop, "
            "two bursts separated by 0.7 s in which every worker is idle, a task that hands over a child and waits for it while its siblings sleep, a second pool that is stopped and joined while the first stays in service, "
            "a join object owned by task closures whose destructor hands over the continuation); tasks handed over after the stop (protocol e) must run at most once, all others exactly once; "
            "per task an execution counter and an in-flight flag, per lifecycle the hook event log (enqueue/pop/begin/end/exit) is checked offline; plain flavor with the pthread_cond_wait interposer widening the "
            "predicate-to-block window and seeded delays at the schedule points, deadlock decided from scheduler state; repeated without delays and under TSan; distinct = process seeds, non-trivial = completed")
    return conc_finish(prop, tier, seed, run, wall, rule, explore, we, ("window_hits", "add_in_window", "tasks_0", "workers_1", "protocol_a", "protocol_b", "protocol_c", "protocol_d", "protocol_e", "protocol_f", "protocol_g", "protocol_h", "protocol_i", "tasks_gt_64"), {"lifecycles": run.counters.get("eval.lifecycle", 0)})

@register("C09")
def c09(prop, tier, seed, wd, explore, limit, kinds, we):
    build("plain"); build("tsan")
    run = PoolRun(prop, tier, seed, wd, Known())
    cases = []
    ns = 30 if tier == "quick" else 500
    for i, (iname, S) in enumerate(block_inputs(prop, seed, tier)):
        # (the number of schedules per process shrinks with the input size: the CPU limit must only ever fire on a spin)
        nsp = max(3, min(ns, 200000 // len(S)))
        nst = max(3, min(max(4, ns // 8), 40000 // len(S)))
        for rep in range(2):
            cases.append(PoolCase("blocks", "plain", gen.splitmix(seed, 20 + rep, i), ["--schedules", str(nsp), "--delay-us", str([150, 400][rep])] + (["--parallel-first"] if rep == 1 else []), iname, S))
        if i % 2 == 0 or tier == "thorough":
            cases.append(PoolCase("blocks", "tsan", gen.splitmix(seed, 23, i), ["--schedules", str(nst), "--delay-us", "100"], iname, S))
    # tens of thousands of tiny blocks of unequal sizes: blocks complete while the producer is still cutting and growing its tables
    r = P.rng_for(seed, prop, 6)
    many = [("short%d" % k, gen.norm(set(bytes(r.choice(b"abcdefgh") for _ in range(r.randint(1, 7))) for _ in range(nn)))) for k, nn in enumerate([26000, 40000] if tier == "quick" else [26000, 40000, 90000, 150000])]
    for i, (iname, S) in enumerate(many):
        for rep, cuts in enumerate(["1", "6,9,14"]):
            cases.append(PoolCase("blocks", "plain", gen.splitmix(seed, 26 + rep, i), ["--schedules", "3" if tier == "quick" else "12", "--delay-us", "0", "--cuts", cuts, "--threads", str([8, 16][(i + rep) % 2])] + (["--parallel-first"] if rep == 1 else []), iname, S))
    if limit:
        cases = cases[:limit]
    wall = run.run_pool_all(cases)
    rule = ("a case is one pool_driver process building the block dictionary of one input under N seeded schedules: cut size from one string per block to one block, overhead, 2-16 threads, delay plans at the block "
            "schedule points forcing reversed / rotated / random completion orders and a slow producer; each build is compared bytewise with the image of the single-threaded build, the block event chain "
            "(queued->begin->built->stored exactly once, all before return) and every locate/extract against the model; distinct = (input, seed), non-trivial = completed")
    return conc_finish(prop, tier, seed, run, wall, rule, explore, we, ("blocks_ge2", "blocks_1", "blocks_eq_n", "blocks_ge1000", "order_not_input_order", "parallel_build_first"), {"max_concurrent_builders": run.counters.get("max_concurrent_builders", 0)})

@register("C11")
def c11(prop, tier, seed, wd, explore, limit, kinds, we):
    build("tsan")
    run = PoolRun(prop, tier, seed, wd, Known())
    cases = []
    ns = 10 if tier == "quick" else 200
    for i, (iname, S) in enumerate(block_inputs(prop, seed, tier)):
        if len(S) < 4:
            continue
        nst = max(3, min(ns, 40000 // len(S)))   # (the CPU limit must only ever fire on a spin)
        for rep in range(2 if tier == "quick" else 4):   # race reports vary run to run: repeat
            cases.append(PoolCase("blocks", "tsan", gen.splitmix(seed, 30 + rep, i), ["--schedules", str(nst), "--delay-us", str([0, 120, 300, 50][rep])] + (["--parallel-first"] if rep % 2 == 0 else []), iname, S))
    # few big blocks (>= 16384 strings each) built at the same time: code paths that only large dictionaries take
    r = P.rng_for(seed, prop, 8)
    for v in range(1 if tier == "quick" else 4):
        S = gen.norm(set(bytes(r.choice(b"abcdefgh") for _ in range(r.randint(2, 8))) for _ in range(120000 + 40000 * v)))
        tl = sum(len(x) + 1 for x in S)
        cases.append(PoolCase("blocks", "tsan", gen.splitmix(seed, 38, v), ["--schedules", "1" if tier == "quick" else "3", "--delay-us", "0", "--cuts", "%d,%d" % (tl // 3 + 8, tl // 4 + 8), "--threads", "4"] + (["--parallel-first"] if v % 2 else []), "bigblocks%d" % v, S))
    for k in range(8 if tier == "quick" else 32):
        cases.append(PoolCase("pool", "tsan", gen.splitmix(seed, 40, k), ["--lifecycles", str(80 if tier == "quick" else 2000), "--delay-us", str([0, 100][k % 2]), "--window", "0"]))
    if limit:
        cases = cases[:limit]
    wall = run.run_pool_all(cases)
    rule = ("a case is one pool_driver process of the ThreadSanitizer flavor: block dictionaries built with 2-16 threads over inputs giving >= 2 blocks (every worker runs Re-Pair, hashing and DAC construction "
            "at the same time) under seeded delay plans, and pool lifecycles whose tasks touch only their own state; TSan report blocks are counted and de-duplicated by the pair of top repository frames; "
            "distinct = (input, seed), non-trivial = completed")
    return conc_finish(prop, tier, seed, run, wall, rule, explore, we, ("blocks_ge2", "parallel_build_first"), {"max_concurrent_builders": run.counters.get("max_concurrent_builders", 0)})

# ---------------------------------------------------------------------------------------------------- components (comp_driver)
class CompCase(PoolCase):
    def __init__(self, mode, flavor, seed, args, tag=""):
        PoolCase.__init__(self, mode, flavor, seed, args, tag=tag)
        self.kind = "COMP:" + mode + ((":" + tag) if tag else "")
    def describe(self):
        return {"driver": "comp_driver", "mode": self.mode, "flavor": self.flavor, "seed": self.seed, "args": self.args, "tag": self.tag, "cold": bool(getattr(self, "cold", False))}

class CompRun(PoolRun):
    def comp_cpu(self):
        # component cases take seconds (quick) to a few minutes (thorough) of CPU: the limit only ever fires on a spin
        return 400 if self.tier == "quick" else 3000
    def run_pool_case(self, case):
        cid = self.runner.next_id()
        outp = os.path.join(self.workdir, "k%d.out" % cid)
        base = [binpath(case.flavor, "comp_driver"), "--mode", case.mode, "--seed", str(case.seed)] + case.args
        if getattr(case, "cold", False):
            # two processes: the first builds and writes every image to files, the second builds nothing and only loads them
            d = os.path.join(self.workdir, "cold%d" % cid)
            os.makedirs(d, exist_ok=True)
            try:
                res = self.runner.run(base + ["--save-dir", d], cpu_s=self.comp_cpu(), wall_s=3600, out_path=None)
                if res["status"] == "ok":
                    res = self.runner.run(base + ["--load-dir", d], cpu_s=self.comp_cpu(), wall_s=3600, out_path=None)
            finally:
                shutil.rmtree(d, ignore_errors=True)
            return case, res
        res = self.runner.run(base, cpu_s=self.comp_cpu(), wall_s=3600, out_path=None)
        return case, res

    def record_pool(self, tup):
        case, res = tup
        prop = self.prop
        out = res["out"]
        with self.lock:
            self.stat["cases"] += 1
            self.per_kind[case.kind] += 1
            self.per_state[case.flavor] += 1
            self.results.append((case, res))
            for k, v in out["counters"].items():
                self.counters[k] += v
            if len(self.samples) < 10 and out["samples"]:
                self.samples.append(out["samples"][0])
            fs = []
            for v in out["viol"]:
                fs.append((v["props"], dict(kind=case.kind, state=case.flavor, op=v["op"], fclass=v["fclass"], site="oracle", qcls=v["qcls"]), v["detail"], ""))
            if res["status"] in ("crash", "wall"):
                fclass, site, op, props, detail = crash_signature(res)
                if fclass == "wall-timeout":
                    self.stat["inconclusive_wall"] += 1
                else:
                    fs.append((sorted(set(props) | {"C07", prop}), dict(kind=case.kind, state=case.flavor, op=op, fclass=fclass, site=site, qcls="-"), detail, res["stderr"][:5000]))
            if res["status"] == "ok":
                self.stat["completed"] += 1
                self.all_keys.add(case.key())
                self.nontrivial_keys.add(case.key())
            elif res["status"] == "harness":
                self.stat["harness_errors"] += 1
            else:
                self.stat["crashed"] += 1
            ctx = case.ctx()
            seen = set()
            for props, sig, detail, extra in fs:
                if prop not in props:
                    continue
                sig = dict(sig, property=prop)
                skey = "|".join(sig[k] for k in ("property", "kind", "state", "op", "fclass", "site", "qcls"))
                if skey in seen:
                    continue
                seen.add(skey)
                kn = self.known.match(sig, ctx)
                if kn:
                    self.known_seen[kn["id"]] += 1
                    self.stat["known_observations"] += 1
                    continue
                e = self.findings.get(skey)
                if e is None:
                    self.findings[skey] = {"sig": sig, "count": 1, "case": case, "detail": detail, "stderr": extra, "crash": False}
                else:
                    e["count"] += 1

def comp_check(prop, tier, seed, wd, explore, we, cases, rule, required=(), extra=None, dict_cases=None, dict_nt=None):
    flavors = sorted(set(c.flavor for c in cases) | set(c.flavor for c in (dict_cases or ())) | ({"asan"} if dict_cases else set()))
    for f in flavors:
        build(f)
    run = CompRun(prop, tier, seed, wd, Known())
    t0 = time.time()
    run.run_pool_all(cases)
    if dict_cases:   # dictionary-level confirmation with the same texts
        DictRun.run_all(run, dict_cases, dict_nt)
    return finish(prop, tier, seed, run, time.time() - t0, rule, explore=explore, write_evidence=we, required_classes=required, extra_cov=extra,
                  assumptions=["oracles are the plain definitions (shadow arrays, naive rank/select, symbol-for-symbol expansion)", "gcc 12 ASan/UBSan runtime reports are accurate for the code reached",
                               "component internals are reached through the public component APIs (protected members of RePair/DAC through a test-only access define)"])

def spread(mode, flavor, seed, nproc, cases_each, extra_args=(), tag=""):
    return [CompCase(mode, flavor, gen.splitmix(seed, mode + tag, k), ["--cases", str(cases_each)] + list(extra_args), tag) for k in range(nproc)]

@register("C17")
def c17(prop, tier, seed, wd, explore, limit, kinds, we):
    cases = []
    exhaustive = tier == "thorough"
    if tier == "quick":
        step = (1 << 22) // 8
        for k in range(8):   # all values below 2^22, every power-of-128 boundary +-3, random
            cases.append(CompCase("vbyte", "asan", gen.splitmix(seed, 1, k), ["--from", str(k * step), "--to", str((k + 1) * step), "--random", "300000"]))
    else:
        step = (1 << 32) // 64
        for k in range(64):  # all 2^32 values
            cases.append(CompCase("vbyte", "fast", gen.splitmix(seed, 1, k), ["--from", str(k * step), "--to", str((k + 1) * step if k < 63 else (1 << 32)), "--random", "1000"]))
    big = ["--big"] if tier == "thorough" else []
    cases += spread("logseq", "asan", seed, 16, 640 if tier == "quick" else 6400, big)
    cases += spread("dacvls", "asan", seed, 16, 400 if tier == "quick" else 4000, big)
    cases += spread("dacbvls", "asan", seed, 8, 300 if tier == "quick" else 3000, big)
    # dictionary-level: what the RPDAC / HASHRPDAC / HASHUFFDAC constructors pass to the DACs
    dc = P.basic_cases(prop, seed, tier, ops=("locate", "extract"), kinds=["RPDAC", "HASHRPDAC", "HASHUFFDAC", "BLOCKS"], per_input_states=1, n_random=22 if tier == "quick" else 200)
    for c in dc:
        pass
    rule = ("VByte: encode->decode identity and equal byte counts for every value below 2^22 (quick) / all 2^32 values (thorough), boundaries and random values; LogSequence: shadow-array model under random writes for widths 1..64 "
            "with every write re-read together with its neighbours, vector constructor, save/load with exact consumption; DAC_VLS / DAC_BVLS: random lists of non-empty sequences (all length 1, one-symbol last sequence, maximal "
            "sequences) checked by access and access_next walks, built and reloaded; plus RPDAC / HASHRPDAC / HASHUFFDAC / block dictionaries (what their constructors pass to the DACs) against the model. "
            "A case is one comp_driver process (seeded) or one dictionary case")
    def dnt(case, cnt):
        return len(case.S) >= 2
    for f in sorted(set(c.flavor for c in cases) | {"asan"}):
        build(f)
    run = CompRun(prop, tier, seed, wd, Known())
    t0 = time.time()
    run.run_pool_all(cases)
    retag(run, "C17")
    DictRun.run_all(run, dc, dnt)
    return finish(prop, tier, seed, run, time.time() - t0, rule, explore=explore, write_evidence=we, required_classes=("width_64", "width_33_63", "all_len1", "last_seq_single_symbol"), extra_cov={"vbyte_all_2p32_values": exhaustive},
                  assumptions=["oracles are the plain definitions (identity, shadow array, stored sequence lists, sorted-vector dictionary model)", "gcc 12 ASan/UBSan runtime reports are accurate for the code reached"])

def retag(run, prop):
    """wrong answers of the dictionary-level confirmation cases count for the component property as well"""
    orig_extract = DictRun.extract_findings
    def ef(self, case, res):
        fs = orig_extract(self, case, res)
        for f in fs:
            if prop not in f["props"]:
                f["props"] = list(f["props"]) + [prop]
        return fs
    run.extract_findings = ef.__get__(run, type(run))

@register("C18")
def c18(prop, tier, seed, wd, explore, limit, kinds, we):
    cases = spread("codes", "asan", seed, 16, 150 if tier == "quick" else 2000)
    # decode(encode) through the real users of the chunk table, on texts realising chosen frequency shapes
    HT = ["HTFC", "HHTFC", "RPHTFC", "HASHHF", "HASHUFFDAC"]
    dc = P.basic_cases(prop, seed, tier, ops=("locate", "extract", "extractTable"), kinds=HT, per_input_states=1, families=["skewed", "uniform2", "uniform253", "lcp128x", "repetitive", "numerals", "extremes", "len1", "mixed", "words", "longshort", "longcode", "dense", "uniform3", "uniform4", "tinydense", "stempairs"],
                       n_random=51 if tier == "quick" else 300, corner=True)
    dc += P.numeral_sweep(prop, seed, tier, ("locate", "extract"), kinds=("HTFC", "HHTFC"))
    # texts of >= 2^17 characters with geometric symbol counts: codewords longer than the 16-bit chunk (decoding subtrees)
    for v in range(2 if tier == "quick" else 8):
        r = P.rng_for(seed, prop, 990000 + v)
        S = gen.fam_geometric_big(r, 30000) if v % 2 == 0 else gen.fam_longcode(r, r.choice([3000, 8000, 16000]))
        for kind in HT:
            pp = (r.choice([16, 3, 5, 8]) if v else 16,) if kind in FC else (r.choice([10, 25, 50]),)
            dc.append(Case(kind, pp, "geometric_big:%d" % len(S), S, "own", 1, ("locate", "extract"), seed=gen.splitmix(seed, v, 31), cpu=600, tags=("gt16",)))
    # tiny members (whole encoding within one byte) between longer ones, under every hash-table layout: the Huffman-coded hash kinds
    # register chunks that span neighbouring strings in table order
    for v in range(3 if tier == "quick" else 24):
        r = P.rng_for(seed, prop, 995000 + v)
        S = gen.fam_tinydense(r, r.choice([200, 839, 1500]))
        for kind in ("HASHHF", "HASHUFFDAC"):
            for ov in (0, 1, 10, 25, 50, 100, 300):
                dc.append(Case(kind, (ov,), "tinydense:%d:%d" % (len(S), v), S, r.choice(["fresh", "own"]), r.choice([1, 2, 3]) if kind == "HASHHF" else 1, ("locate", "extract", "extractTable"), seed=gen.splitmix(seed, v, 37)))
    # many dictionaries of a few hundred geometric-letter words: rare phase combinations of the byte-wise decoders (about one
    # dictionary in 250 meets the one a seeded change needed)
    for v in range(2400 if tier == "quick" else 12000):
        r = P.rng_for(seed, prop, 997000 + v)
        S = gen.fam_geomwords(r, r.choice([300, 500]))
        kind = "HASHUFFDAC" if v % 10 < 7 else ["HASHHF", "HTFC", "HHTFC"][v % 3]
        pp = (r.choice([4, 8, 16]),) if kind in FC else (r.choice([0, 10, 25, 50]),)
        dc.append(Case(kind, pp, "geomwords:%d:%d" % (len(S), v), S, "fresh", 1, ("locate", "extract"), seed=gen.splitmix(seed, v, 53)))
    # stems x tiny suffixes in buckets of two: the chunk that ends a bucket header reaches over the whole internal string and into the next header
    for v in range(24 if tier == "quick" else 200):
        r = P.rng_for(seed, prop, 996000 + v)
        S = gen.fam_stempairs(r, r.choice([400, 2000, 4000]))
        for kind in (("HHTFC", "HTFC") if v % 3 == 0 else ("HHTFC",)):
            dc.append(Case(kind, (2,), "stempairs:%d:%d" % (len(S), v), S, r.choice(["fresh", "own"]), 1, ("locate", "extract", "extractTable"), seed=gen.splitmix(seed, v, 39)))
    rule = ("code tables: Hu-Tucker and Huffman tables for seeded frequency vectors of 9 shapes (uniform, Zipf, geometric, Fibonacci-like, one dominant symbol, random with the +1 floor, two-level, text-like, few symbols) must be "
            "prefix-free (pairwise), complete (Kraft sum 1) and, for Hu-Tucker, strictly increasing as left-aligned bit strings; decode(encode) is checked through HTFC / HHTFC / RPHTFC / HASHHF / HASHUFFDAC dictionaries built on "
            "texts of skewed, tiny-alphabet, 253-symbol, long-shared-prefix and numeral shapes (locate/extract/table against the model); a case is one comp_driver process or one dictionary case")
    def dnt(case, cnt):
        return len(case.S) >= 2
    for _fl in sorted({"asan"} | set(c.flavor for c in cases) | set(c.flavor for c in dc)):
        build(_fl)
    run = CompRun(prop, tier, seed, wd, Known())
    t0 = time.time()
    run.run_pool_all(cases)
    # wrong answers of the Huffman / Hu-Tucker coded kinds are C18 violations here: re-tag
    run18 = run
    orig_extract = DictRun.extract_findings
    def ef(self, case, res):
        fs = orig_extract(self, case, res)
        for f in fs:
            if "C18" not in f["props"]:
                f["props"] = list(f["props"]) + ["C18"]
        return fs
    run.extract_findings = ef.__get__(run, CompRun)
    DictRun.run_all(run, dc, dnt)
    return finish(prop, tier, seed, run, time.time() - t0, rule, explore=explore, write_evidence=we, required_classes=("shape_fibonacci", "shape_dominant", "shape_zipf", "codeword_gt16"),
                  assumptions=["oracles are the plain definitions of prefix-freeness / completeness / alphabetic order and the sorted-vector dictionary model", "frequency vectors whose optimal code needs more than 32 bits are skipped and counted"])

@register("C19")
def c19(prop, tier, seed, wd, explore, limit, kinds, we):
    big = ["--big"] if tier == "thorough" else []
    cases = []
    for v in ("rg", "rrr", "sdarray", "darray"):
        cases += spread("bitseq", "asan", seed * 7 + len(v), 8, 400 if tier == "quick" else 3000, ["--variants", v] + big, tag=v)
    cases += spread("wt", "asan", seed, 16, 40 if tier == "quick" else 400, big)
    # persistence across processes: one process builds and saves, another one only loads and answers
    cold = []
    for v in ("rg", "rrr", "sdarray", "darray"):
        cold += spread("bitseq", "asan", seed * 13 + len(v), 2, 60 if tier == "quick" else 600, ["--variants", v] + big, tag=v + ":cold")
    cold += spread("wt", "asan", seed * 13, 2, 10 if tier == "quick" else 100, big, tag="cold")
    for c in cold:
        c.cold = True
    cases += cold
    rule = ("bit vectors of 11 shapes (all-0, all-1, single 1/0, alternating, runs around multiples of 15, sparse, dense, half, block-uniform, long mixed-density vectors with dense and > 2^16-bit sparse blocks of 1024 ones) and lengths around multiples of 15/32/64 and random: access/rank0/rank1 at every position and "
            "select0/select1 for every j against prefix counts, for BitSequenceRG (factors 1..40), BitSequenceRRR (rates 1..128 incl. odd ones), SDArray and DArray, built and reloaded through BitSequence::load; WaveletTree (Huffman shape, "
            "identity mapper, RG/RRR bitmaps) and WaveletTreeNoptrs: access/rank/select against position lists, built and reloaded; a case is one comp_driver process; 'cold' cases are pairs of processes: the first builds and "
            "writes the images to files, the second builds nothing and checks what it loads from them")
    return comp_check(prop, tier, seed, wd, explore, we, cases, rule, required=("bitvec_all0", "bitvec_all1", "bitvec_block_uniform", "bitvec_mixed_density", "bitvec_len_mod32_0", "bitvec_len_mod15_0", "sigma_1", "sigma_256", "cold_load"))

@register("C20")
def c20(prop, tier, seed, wd, explore, limit, kinds, we):
    big = ["--big"] if tier == "thorough" else []
    cases = spread("repair", "asan", seed, 16, 150 if tier == "quick" else 1500, big)
    dc = P.basic_cases(prop, seed, tier, ops=("locate", "extract"), kinds=["RPDAC", "RPFC", "RPHTFC", "HASHRPF", "HASHRPDAC"], per_input_states=1, families=["repetitive", "copies", "near", "norepeat", "chain", "uniform2", "len1", "last_single", "urls"],
                       n_random=27 if tier == "quick" else 250)
    # thousands of short strings over three letters: the compressor's per-frequency pair arrays grow past their first capacity and shrink again
    for v in range(2 if tier == "quick" else 10):
        r = P.rng_for(seed, prop, 660000 + v)
        S = gen.fam_uniform(r, 1600 + 700 * v, "a3", 3, 9)
        for kind in ["RPDAC", "RPFC", "HASHRPF", "HASHRPDAC", "RPHTFC"]:
            pp = P.param_vectors(kind, r, S, 1)[0]
            dc.append(Case(kind, pp, "uniform3:%d" % len(S), S, r.choice(["own", "fresh"]), 1, ("locate", "extract"), seed=gen.splitmix(seed, v, 41), cpu=300))
    # more than 98 303 distinct pairs alive at once (the compressor's pair table has 2^17 cells and grows at 3/4): only word-structured
    # text of about a megabyte gets there; optimised flavor, the verdicts are the model comparison and the CPU limit
    for v in range(1 if tier == "quick" else 4):
        r = P.rng_for(seed, prop, 670000 + v)
        S = gen.fam_wordpairs(r, 60000 + 20000 * v, 10, 700 + 300 * v)
        for kind in (["RPDAC"] if tier == "quick" else ["RPDAC", "HASHRPF", "RPFC"]):
            pp = P.param_vectors(kind, r, S, 1)[0]
            if kind == "RPFC":
                pp = (16,)
            dc.append(Case(kind, pp, "wordpairs:%d" % len(S), S, "fresh", 1, ("locate", "extract"), seed=gen.splitmix(seed, v, 43), flavor="fast", cpu=300 if tier == "quick" else 1800, tags=("pairs_gt_98303",)))
    rule = ("Re-Pair on integer sequences of 10 shapes (no repeated pair, one string, runs, abab, Fibonacci words, copies, near-identical strings, random over 2 / 254 symbols, thousands of short strings over 3-4 letters): the caller's array is walked the way the dictionaries' "
            "compaction loops do and expanded symbol for symbol against the original; no rule side is 0 or beyond terminals+rules; getBits suffices; expandRule agrees; save/loadNoSeq reproduces the rule table; "
            "plus the five Re-Pair based dictionary kinds on the same kinds of text against the model; a case is one comp_driver process or one dictionary case")
    def dnt(case, cnt):
        return len(case.S) >= 2
    for _fl in sorted({"asan"} | set(c.flavor for c in cases) | set(c.flavor for c in dc)):
        build(_fl)
    run = CompRun(prop, tier, seed, wd, Known())
    t0 = time.time()
    run.run_pool_all(cases)
    orig_extract = DictRun.extract_findings
    def ef(self, case, res):
        fs = orig_extract(self, case, res)
        for f in fs:
            if "C20" not in f["props"]:
                f["props"] = list(f["props"]) + ["C20"]
        return fs
    run.extract_findings = ef.__get__(run, CompRun)
    DictRun.run_all(run, dc, dnt)
    return finish(prop, tier, seed, run, time.time() - t0, rule, explore=explore, write_evidence=we, required_classes=("repair_no_repeated_pair", "repair_fibonacci", "repair_run", "rules_0"),
                  assumptions=["the oracle is symbol-for-symbol expansion of the grammar with an explicit stack and a cycle guard", "RePair internals (G, terminals, rules) are read through a test-only access define"])
