# Workloads per property for the dictionary-level checks.
import random
from dictcheck import *
import gen

def prop_num(p):
    return int(p[1:])

def rng_for(seed, prop, i=0):
    return random.Random(gen.splitmix(seed, prop_num(prop), i))

SIZES_Q = [1, 2, 3, 4, 5, 7, 8, 9, 13, 16, 17, 30, 64, 65, 100, 257, 400, 1000]
SIZES_T = SIZES_Q + [2000, 5000, 20000]

def input_sets(prop, seed, tier, n_random=None, families=None, corner=True, max_n=None):
    """corner corpus + seeded random sets; yields (name, S)"""
    out = []
    if corner:
        out += gen.corner_corpus()
    fams = families or sorted(gen.FAMILIES)
    if n_random is None:
        n_random = 44 if tier == "quick" else 400
    sizes = SIZES_Q if tier == "quick" else SIZES_T
    for i in range(n_random):
        r = rng_for(seed, prop, 1000 + i)
        fam = fams[i % len(fams)]
        n = r.choice(sizes)
        if max_n:
            n = min(n, max_n)
        if fam in ("long", "longshort") and n > 300:
            n = r.choice([3, 20, 100])
        S = gen.FAMILIES[fam](r, n)
        # texts are bounded (quick 64 KiB .. thorough 8 MiB): drop the longest strings beyond the budget
        budget = (256 << 10) if tier == "quick" else (8 << 20)
        tot = 0
        keep = []
        for x in S:
            tot += len(x) + 1
            if tot > budget:
                break
            keep.append(x)
        S = keep
        if S:
            out.append(("%s:%d:s%d.%d" % (fam, len(S), seed, i), S))
    return out

def param_vectors(kind, r, S, k=1, legal_only=True):
    """k seeded parameter vectors for a kind"""
    n = len(S)
    textlen = sum(len(s) + 1 for s in S)
    out = []
    for _ in range(k):
        if kind in FC:
            c = [2, 3, 4, 5, 7, 8, 16, 32, 64, max(2, n - 1), max(2, n), n + 1, 4096]
            if n > 3000:   # a bucket of n strings makes every access O(n): quadratic workloads are legitimately slow, not spinning
                c = [2, 3, 4, 5, 7, 8, 16, 32, 64, 257, 1024, 4096]
            out.append((r.choice(c),))
        elif kind in ("HASHHF", "HASHRPF", "HASHUFFDAC", "HASHRPDAC"):
            out.append((r.choice([0, 1, 10, 25, 50, 100, 300]),))
        elif kind == "BLOCKS":
            cuts = [1, min(len(s) for s in S) + 1, max(1, textlen // 2), max(1, textlen // 3), max(1, textlen // 7), max(1, textlen // 50), textlen + 10, 1 << 27]
            out.append((r.choice([0, 10, 25, 100]), r.choice(cuts), r.choice([1, 2, 3, 4, 8])))
        elif kind == "FMINDEX":
            sparse = r.choice([0, 1])
            bp = r.choice([1, 2, 3, 4, 20, 40]) if not sparse else r.choice([1, 3, 5, 7, 8, 16, 32, 128])
            samp = r.choice([0, 1, 2, 3, 4, 8, 16, 64, textlen + 5])
            out.append((sparse, bp, samp))
        else:
            out.append(())
    return out

def states_for(kind, r, which=("fresh", "own", "gen")):
    st = [s for s in which if not (kind == "BLOCKS" and s in ("gen", "coldgen"))]
    return st

def opt_for(kind, r):
    return r.choice([1, 2, 3]) if kind in ("HASHHF", "HASHRPF") else 1

# ------------------------------------------------------------------------------------------------------
WORDS = sorted(set(w.encode() for w in """alpha alpine amber apple apricot banana basil beta betamax birch cedar cherry chestnut cobalt coral delta ebony elm fern fig gamma gammb garnet
ginger hazel indigo iris ivory jade jasmine juniper kiwi lemon lilac lime linden maple mint myrtle nutmeg oak olive onyx opal orchid peach pear pine plum poplar quince rose ruby sage teak thyme tulip
umber violet walnut willow yew zeta zinc""".split()))

def boundary_sweep(prop, seed, tier, ops, kinds=FC, states=("own", "fresh"), nmax=None, bsizes=(2, 3, 4, 8)):
    """every dictionary size 1..nmax x small bucket sizes: n a multiple of the bucket size, n = kb+1 (last bucket is only a header), n < b, ..."""
    out = []
    nmax = nmax or (34 if tier == "quick" else len(WORDS))
    for kind in kinds:
        for b in bsizes:
            for n in range(1, nmax + 1):
                r = rng_for(seed, prop, 900000 + KINDS.index(kind) * 1000 + b * 100 + n)
                S = WORDS[:n] if r.random() < 0.5 else sorted(r.sample(WORDS, n))
                p = (b,) if kind in FC else param_vectors(kind, r, S, 1)[0]
                out.append(Case(kind, p, "words%d" % n, S, states[(n + b) % len(states)], opt_for(kind, r), ops, big=False, seed=gen.splitmix(seed, n, b)))
    return out

def numeral_sweep(prop, seed, tier, ops, kinds=("HTFC", "HHTFC", "RPHTFC"), states=("own", "fresh")):
    """numerals 0..n-1 for every n in a range: the byte-frequency vector changes shape with n (ties between equal weights in the code construction)"""
    out = []
    hi = 150 if tier == "quick" else 1200
    for kind in kinds:
        for n in range(12, hi):
            S = sorted(b"%d" % i for i in range(n))
            b = [16, 8, 4, 64][n % 4]
            out.append(Case(kind, (b,), "numerals0_%d" % n, S, states[n % len(states)], 1, ops, big=False, seed=gen.splitmix(seed, n, 5)))
    return out

def hash_sweep(prop, seed, tier, ops, kinds=("HASHHF", "HASHRPF", "HASHUFFDAC", "HASHRPDAC"), overheads=(0, 5, 10, 50), states=("own", "fresh")):
    """every dictionary size 1..nmax x several overheads: the hash table size (a prime near n*(1+overhead)) takes every small value"""
    out = []
    nmax = 48 if tier == "quick" else len(WORDS)
    for kind in kinds:
        for n in range(1, nmax + 1):
            S = WORDS[:n]
            for ov in overheads:
                out.append(Case(kind, (ov,), "words%d" % n, S, states[(n + ov) % len(states)], 1, ops, big=False, seed=gen.splitmix(seed, n, 3), extra=("--qbs", "4")))
            # full tables (overhead 0): probe sequences must visit every cell whatever the keys are -> several key sets per size
            for v in range(4 if tier == "quick" else 16):
                r = rng_for(seed, prop, 800000 + KINDS.index(kind) * 1000 + n * 17 + v)
                fam = [gen.FAMILIES["urls"], gen.FAMILIES["uniform26"], gen.FAMILIES["numerals"], gen.FAMILIES["words"]][v % 4]
                S2 = fam(r, n)[:n]
                if len(S2) == n:
                    out.append(Case(kind, (0,), "full%d.%d" % (n, v), S2, states[(n + v) % len(states)], 1, ops, big=False, seed=gen.splitmix(seed, n, 4), extra=("--qbs", "4")))
    return out

def basic_cases(prop, seed, tier, ops, kinds=KINDS, states=("fresh", "own", "gen", "resaved", "survivor", "heir", "cold"), per_input_states=4, filt=None, n_random=None, families=None, pv=1, big=None, kind_params=None, max_n=None, extra_inputs=(), corner=True):
    cases = []
    sets = list(extra_inputs) + input_sets(prop, seed, tier, n_random=n_random, families=families, max_n=max_n, corner=corner)
    for ii, (iname, S) in enumerate(sets):
        for kind in kinds:
            r = rng_for(seed, prop, ii * 100 + KINDS.index(kind))
            pvs = kind_params(kind, r, S) if kind_params else param_vectors(kind, r, S, pv)
            for p in pvs:
                sts = states_for(kind, r, states)
                r.shuffle(sts)
                for st in sts[:per_input_states]:
                    c = Case(kind, p, iname, S, st, opt_for(kind, r), ops, big=(tier == "thorough") if big is None else big, seed=gen.splitmix(seed, ii, 7))
                    if filt and not filt(c):
                        continue
                    if kind == "XBW" and not xbw_ok(S):
                        continue
                    if kind == "FMINDEX" and not fm_ok(S, p):
                        continue
                    cases.append(c)
    return cases

def xbw_ok(S):
    """XBW search/extraction is quadratic in the string length (vector-front erasure per trie level): keep its inputs moderate so that
    the CPU limit only ever fires on a genuine spin"""
    return max(len(x) for x in S) <= 300 and sum(len(x) + 1 for x in S) <= 40000

def fm_ok(S, p):
    """FM-index substring location costs (occurrences x distance to the next sample): with a BWT sampling larger than the strings and
    long or highly repetitive strings this is legitimately slow; keep such combinations out so that the CPU limit only means a spin"""
    L = max(len(x) for x in S)
    samp = p[2] if len(p) > 2 else 0
    return samp == 0 or L <= 150 or samp <= 16

def nt_fc_or_any(case, counters):
    """non-trivial: >=2 strings and, for bucketed kinds, >=2 buckets or a partial last bucket"""
    n = len(case.S)
    if n < 2:
        return False
    if case.kind in FC:
        b = case.bs()
        return n > b or n % b != 0
    return True
