// Building / saving / loading dictionaries exactly the way Build.cpp and Test.cpp do.
#ifndef VERIF_DICT_BUILD_H
#define VERIF_DICT_BUILD_H
#include "StringDictionary.h"
#include "StringDictionaryHASHRPDACBlocks.h"
#include "iterators/IteratorDictStringPlain.h"
#include "model.h"
#include <sstream>
#include <typeinfo>

enum Kind { K_PFC, K_RPFC, K_HTFC, K_HHTFC, K_RPHTFC, K_RPDAC, K_HASHHF, K_HASHRPF, K_HASHUFFDAC, K_HASHRPDAC, K_BLOCKS, K_FMINDEX, K_XBW, K_NONE };
static const char *KIND_NAMES[] = {"PFC", "RPFC", "HTFC", "HHTFC", "RPHTFC", "RPDAC", "HASHHF", "HASHRPF", "HASHUFFDAC", "HASHRPDAC", "BLOCKS", "FMINDEX", "XBW"};
static inline Kind kind_of(const std::string &s) {
  for (int i = 0; i < (int)K_NONE; i++)
    if (s == KIND_NAMES[i])
      return (Kind)i;
  return K_NONE;
}
static inline bool is_fc(Kind k) { return k <= K_RPHTFC; }
static inline bool is_hash(Kind k) { return k >= K_HASHHF && k <= K_BLOCKS; }
static inline bool is_ordered(Kind k) { return is_fc(k) || k == K_RPDAC || k == K_FMINDEX; }
static inline bool has_prefix(Kind k) { return is_fc(k) || k == K_RPDAC || k == K_FMINDEX || k == K_XBW; }
static inline uint32_t tag_of(Kind k) {
  static const uint32_t t[] = {PFC, RPFC, HTFC, HHTFC, RPHTFC, RPDAC, HASHHF, HASHRPF, HASHUFFDAC, HASHRPDAC, HASHRPDACBlocks, FMINDEX, DXBW};
  return t[k];
}

struct Params {
  long p1 = 0, p2 = 0, p3 = 0, p4 = 0;
};

// Concatenate S with NUL terminators; `extra` additional zero bytes are appended to the allocation.
static inline uchar *plain_buffer(const Model &m, size_t *len, size_t extra) {
  size_t total = 0;
  for (auto &s : m.S)
    total += s.size() + 1;
  uchar *b = new uchar[total + extra];
  size_t p = 0;
  for (auto &s : m.S) {
    memcpy(b + p, s.data(), s.size());
    p += s.size();
    b[p++] = 0;
  }
  for (size_t i = 0; i < extra; i++)
    b[total + i] = 0;
  *len = total;
  return b;
}

static inline StringDictionary *build_dict(Kind k, const Params &P, const Model &m) {
  size_t len;
  switch (k) {
  case K_PFC:
  case K_RPFC:
  case K_HTFC:
  case K_HHTFC:
  case K_RPHTFC: {
    uchar *b = plain_buffer(m, &len, 0);
    IteratorDictString *it = new IteratorDictStringPlain(b, len);
    uint bs = (uint)P.p1;
    if (k == K_PFC)
      return new StringDictionaryPFC(it, bs);
    if (k == K_RPFC)
      return new StringDictionaryRPFC(it, bs);
    if (k == K_HTFC)
      return new StringDictionaryHTFC(it, bs);
    if (k == K_HHTFC)
      return new StringDictionaryHHTFC(it, bs);
    return new StringDictionaryRPHTFC(it, bs);
  }
  case K_RPDAC: {
    uchar *b = plain_buffer(m, &len, 0);
    IteratorDictString *it = new IteratorDictStringPlain(b, len);
    return new StringDictionaryRPDAC(it);
  }
  case K_HASHHF:
  case K_HASHRPF:
  case K_HASHUFFDAC:
  case K_HASHRPDAC: {
    uchar *b = plain_buffer(m, &len, 1);
    IteratorDictString *it = new IteratorDictStringPlain(b, len);
    int ov = (int)P.p1;
    if (k == K_HASHHF)
      return new StringDictionaryHASHHF(it, (uint)len, ov);
    if (k == K_HASHRPF)
      return new StringDictionaryHASHRPF(it, (uint)len, ov);
    if (k == K_HASHUFFDAC)
      return new StringDictionaryHASHUFFDAC(it, (uint)len, ov);
    return new StringDictionaryHASHRPDAC(it, (uint)len, ov);
  }
  case K_BLOCKS: {
    uchar *b = plain_buffer(m, &len, 0);
    IteratorDictStringPlain *it = new IteratorDictStringPlain(b, len);
    return new StringDictionaryHASHRPDACBlocks(it, len, (int)P.p1, (unsigned long)P.p2, (int)P.p3);
  }
  case K_FMINDEX: {
    uchar *b = plain_buffer(m, &len, 0);
    IteratorDictString *it = new IteratorDictStringPlain(b, len);
    StringDictionary *d = new StringDictionaryFMINDEX(it, P.p1 != 0, (int)P.p2, (size_t)P.p3);
    delete it;
    return d;
  }
  case K_XBW: {
    uchar *b = plain_buffer(m, &len, 0);
    IteratorDictString *it = new IteratorDictStringPlain(b, len - 1);
    StringDictionary *d = new StringDictionaryXBW(it);
    delete it;
    return d;
  }
  default:
    return NULL;
  }
}

static inline StringDictionary *load_own(Kind k, std::istream &in, uint opt) {
  switch (k) {
  case K_PFC: return StringDictionaryPFC::load(in);
  case K_RPFC: return StringDictionaryRPFC::load(in);
  case K_HTFC: return StringDictionaryHTFC::load(in);
  case K_HHTFC: return StringDictionaryHHTFC::load(in);
  case K_RPHTFC: return StringDictionaryRPHTFC::load(in);
  case K_RPDAC: return StringDictionaryRPDAC::load(in);
  case K_HASHHF: return StringDictionaryHASHHF::load(in, opt);
  case K_HASHRPF: return StringDictionaryHASHRPF::load(in, opt);
  case K_HASHUFFDAC: return StringDictionaryHASHUFFDAC::load(in);
  case K_HASHRPDAC: return StringDictionaryHASHRPDAC::load(in, opt);
  case K_BLOCKS: return StringDictionaryHASHRPDACBlocks::load(in, opt);
  case K_FMINDEX: return StringDictionaryFMINDEX::load(in);
  case K_XBW: return StringDictionaryXBW::load(in);
  default: return NULL;
  }
}

static inline bool dyn_type_ok(Kind k, StringDictionary *d) {
  switch (k) {
  case K_PFC: return typeid(*d) == typeid(StringDictionaryPFC);
  case K_RPFC: return typeid(*d) == typeid(StringDictionaryRPFC);
  case K_HTFC: return typeid(*d) == typeid(StringDictionaryHTFC);
  case K_HHTFC: return typeid(*d) == typeid(StringDictionaryHHTFC);
  case K_RPHTFC: return typeid(*d) == typeid(StringDictionaryRPHTFC);
  case K_RPDAC: return typeid(*d) == typeid(StringDictionaryRPDAC);
  case K_HASHHF: return typeid(*d) == typeid(StringDictionaryHASHHF);
  case K_HASHRPF: return typeid(*d) == typeid(StringDictionaryHASHRPF);
  case K_HASHUFFDAC: return typeid(*d) == typeid(StringDictionaryHASHUFFDAC);
  case K_HASHRPDAC: return typeid(*d) == typeid(StringDictionaryHASHRPDAC);
  case K_BLOCKS: return typeid(*d) == typeid(StringDictionaryHASHRPDACBlocks);
  case K_FMINDEX: return typeid(*d) == typeid(StringDictionaryFMINDEX);
  case K_XBW: return typeid(*d) == typeid(StringDictionaryXBW);
  default: return false;
  }
}

static inline std::string save_image(StringDictionary *d) {
  std::stringstream ss(std::ios::in | std::ios::out | std::ios::binary);
  d->save(ss);
  return ss.str();
}
#endif
