# Builds /repo's current working tree (with -DLIBCSD_VERIF) and the drivers for one flavor.
# usage: make -f harness/build.mk FLAVOR=asan -j16
REPO ?= /repo
VERIF ?= /verif
FLAVOR ?= asan
B := $(VERIF)/.build/$(FLAVOR)
CXX := g++
COMMON := -std=gnu++17 -g -fno-omit-frame-pointer -DLIBCSD_VERIF -I$(REPO)/libcds/includes -I$(REPO) -w -pthread
UBSUB := -fsanitize=bounds,null,vptr,return,unreachable,bool,enum,alignment -fno-sanitize-recover=all
FLAGS_asan := -O1 -fsanitize=address $(UBSUB)
FLAGS_tsan := -O1 -fsanitize=thread
FLAGS_plain := -O1
FLAGS_fast := -O2
CXXFLAGS := $(COMMON) $(FLAGS_$(FLAVOR))
SRCS := $(shell /usr/bin/python3 $(VERIF)/harness/srcs.py $(REPO))
OBJS := $(patsubst %.cpp,$(B)/obj/%.o,$(SRCS))
DRIVERS := dict_driver comp_driver pool_driver
BINS := $(patsubst %,$(B)/%,$(DRIVERS))
HDRS := $(wildcard $(VERIF)/harness/*.h)

all: $(BINS)

$(B)/obj/%.o: $(REPO)/%.cpp
	@mkdir -p $(dir $@)
	$(CXX) $(CXXFLAGS) -MMD -MP -c $< -o $@

$(B)/libcsd.a: $(OBJS)
	@rm -f $@
	ar rcs $@ $(OBJS)

$(B)/drv_%.o: $(VERIF)/harness/%.cpp $(HDRS)
	@mkdir -p $(dir $@)
	$(CXX) $(CXXFLAGS) -MMD -MP -c $< -o $@

$(B)/%: $(B)/drv_%.o $(B)/libcsd.a
	$(CXX) $(CXXFLAGS) $< $(B)/libcsd.a -ldl -rdynamic -o $@

-include $(OBJS:.o=.d) $(patsubst %,$(B)/drv_%.d,$(DRIVERS))
.SECONDARY:
