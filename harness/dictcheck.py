# Dictionary-level checks: case description, execution with skip re-runs, finding extraction.
import os, sys, json, time, hashlib, random, shutil, collections
from concurrent.futures import ThreadPoolExecutor
from core import *
import gen

KINDS = ["PFC", "RPFC", "HTFC", "HHTFC", "RPHTFC", "RPDAC", "HASHHF", "HASHRPF", "HASHUFFDAC", "HASHRPDAC", "BLOCKS", "FMINDEX", "XBW"]
FC = ["PFC", "RPFC", "HTFC", "HHTFC", "RPHTFC"]
HASHK = ["HASHHF", "HASHRPF", "HASHUFFDAC", "HASHRPDAC", "BLOCKS"]
ORDERED = FC + ["RPDAC", "FMINDEX"]
PREFIXK = FC + ["RPDAC", "FMINDEX", "XBW"]
SKIPPABLE = {"locate", "extract", "locate_absent", "extract_badid", "rank", "locatePrefix", "extractPrefix", "locateSubstr", "extractSubstr",
             "extractTable", "unsupported", "history", "save", "meta"}

class Case:
    __slots__ = ("kind", "p", "iname", "S", "state", "opt", "ops", "big", "memalloc", "seed", "flavor", "env", "group", "tags", "cpu", "extra", "_ih")
    def __init__(self, kind, p, iname, S, state="fresh", opt=1, ops=(), big=False, memalloc=0, seed=1, flavor="asan", env=None, group=None, tags=(), cpu=None, extra=()):
        self.kind, self.p, self.iname, self.S, self.state, self.opt = kind, tuple(p) + (0,) * (3 - len(p)), iname, S, state, opt
        self.ops, self.big, self.memalloc, self.seed, self.flavor, self.env = tuple(ops), big, memalloc, seed, flavor, env or {}
        self.group, self.tags, self.cpu, self.extra = group, tuple(tags), cpu, tuple(extra)
        self._ih = None
    def ihash(self):
        if self._ih is None:
            h = hashlib.sha1()
            for s in self.S:
                h.update(s + b"\0")
            self._ih = h.hexdigest()[:12]
        return self._ih
    def key(self):
        return "%s|%s|%s|%s|%d|%s|%d" % (self.kind, ",".join(map(str, self.p)), self.ihash(), self.state, self.opt, ",".join(self.ops), self.memalloc)
    def bs(self):
        return max(2, self.p[0]) if self.kind in FC else 0
    def ctx(self):
        S = self.S
        n = len(S)
        textlen = sum(len(s) + 1 for s in S)
        lcps = [gen.lcp(S[i], S[i + 1]) for i in range(n - 1)] if max(len(s) for s in S) >= 16384 else []
        return {"kind": self.kind, "state": self.state, "opt": self.opt, "p1": self.p[0], "p2": self.p[1], "p3": self.p[2], "n": n, "L": max(len(s) for s in S), "lcps": lcps,
                "textlen": textlen, "classes": gen.input_classes(S, self.bs()), "memalloc": self.memalloc, "iname": self.iname, "bs": self.bs(), "S": S}
    def describe(self):
        return {"kind": self.kind, "params": list(self.p), "input": self.iname, "n": len(self.S), "state": self.state, "opt": self.opt, "ops": list(self.ops), "memalloc": self.memalloc, "seed": self.seed}
    def to_json(self):
        d = self.describe()
        d.update({"S_b64": b64list(self.S), "flavor": self.flavor, "env": self.env, "big": self.big, "extra": list(self.extra)})
        return d
    @staticmethod
    def from_json(d):
        return Case(d["kind"], d["params"], d["input"], unb64list(d["S_b64"]), d["state"], d["opt"], d["ops"], d.get("big", False), d.get("memalloc", 0), d.get("seed", 1), d.get("flavor", "asan"), d.get("env"), extra=d.get("extra", ()))

class DictRun:
    """runs dictionary cases for one property and accumulates findings and coverage"""
    def __init__(self, prop, tier, seed, workdir, known):
        self.prop, self.tier, self.seed = prop, tier, seed
        self.runner = Runner(workdir)
        self.workdir = workdir
        self.known = known
        self.results = []          # (case, final result dict)
        self.findings = collections.OrderedDict()   # sigkey -> dict(sig, count, witness case, detail, known entry or None)
        self.counters = collections.Counter()
        self.samples = []
        self.stat = collections.Counter()
        self.input_files = {}
        self.lock = threading.Lock()
        self.nontrivial_keys = set()
        self.all_keys = set()
        self.per_kind = collections.Counter()
        self.per_state = collections.Counter()
        self.known_seen = collections.Counter()
        self.blocked = collections.OrderedDict()
        self.in_classes = {}

    def input_path(self, case):
        h = case.ihash()
        with self.lock:
            p = self.input_files.get(h)
            if p is None:
                p = os.path.join(self.workdir, "in_%s" % h)
                gen.write_input(p, case.S)
                self.input_files[h] = p
        return p

    def argv(self, case, skip=()):
        a = [binpath(case.flavor, "dict_driver"), "--kind", case.kind, "--p1", str(case.p[0]), "--p2", str(case.p[1]), "--p3", str(case.p[2]),
             "--input", self.input_path(case), "--state", case.state, "--opt", str(case.opt), "--seed", str(case.seed)]
        if case.ops:
            a += ["--ops", ",".join(case.ops)]
        if skip:
            a += ["--skip", ",".join(sorted(skip))]
        if case.memalloc:
            a += ["--memalloc", str(case.memalloc)]
        if case.big:
            a += ["--big"]
        a += list(case.extra)
        return a

    def cpu_limit(self, case):
        if case.cpu:
            return case.cpu
        tl = sum(len(s) + 1 for s in case.S)
        base = 30 + tl // 10000
        if case.big:
            base *= 4
        if case.kind in FC:   # a bucket of hundreds of strings makes every in-bucket access linear in the bucket: legitimately slow
            b = min(case.bs(), len(case.S))
            if b > 256:
                base *= 1 + b / 128.0
        if case.kind == "XBW":
            base *= 10
        if case.kind == "FMINDEX":   # substring location walks up to one whole string per occurrence when the BWT sampling is sparse
            base *= 8
        return int(base)

    def extract_findings(self, case, res):
        """-> list of finding dicts from one process run; each has 'props' (list)"""
        out = res["out"]
        fs = []
        for v in out["viol"]:
            fs.append({"props": v["props"], "kind": case.kind, "state": case.state, "op": v["op"], "fclass": v["fclass"], "site": "oracle", "qcls": v["qcls"], "detail": v["detail"], "crash": False})
        if res["status"] in ("crash", "wall"):
            fclass, site, op, props, detail = crash_signature(res)
            props = sorted(set(props) | {"C07"}) if fclass != "wall-timeout" else props
            fs.append({"props": props, "kind": case.kind, "state": case.state, "op": op, "fclass": fclass, "site": site, "qcls": "-", "detail": detail, "crash": True,
                       "stderr": res["stderr"][:6000]})
        return fs

    def run_case(self, case):
        if case.state in ("cold", "coldgen"):
            return self.run_cold(case)
        return self.run_case1(case)

    def run_cold(self, case):
        """two processes: the first builds the dictionary and writes its image to a file, the second builds nothing and answers from the loaded image"""
        imgp = os.path.join(self.workdir, "img_%d" % self.runner.next_id())
        try:
            first = Case(case.kind, case.p, case.iname, case.S, "own", case.opt, ("meta",), case.big, case.memalloc, case.seed, case.flavor, case.env, cpu=case.cpu, extra=tuple(case.extra) + ("--img-out", imgp))
            c1, res1, fs1 = self.run_case1(first)
            if res1["status"] != "ok" or not os.path.exists(imgp):
                for f in fs1:
                    f["state"] = case.state
                return case, res1, fs1
            return self.run_case1(case, ("--img-in", imgp))
        finally:
            try:
                os.unlink(imgp)
            except OSError:
                pass

    def run_case1(self, case, more=()):
        skip = set()
        allf = []
        final = None
        rounds = 0
        ctx = None
        while True:
            res = self.runner.run(self.argv(case, skip) + list(more), env_extra=case.env, cpu_s=self.cpu_limit(case), wall_s=max(900, 3 * self.cpu_limit(case) + 300))
            if res["status"] == "wall":   # re-run once before reporting (wall clock never decides)
                res = self.runner.run(self.argv(case, skip) + list(more), env_extra=case.env, cpu_s=self.cpu_limit(case), wall_s=max(900, 3 * self.cpu_limit(case) + 300))
            final = res
            fs = self.extract_findings(case, res)
            allf.extend(fs)
            crash = [f for f in fs if f["crash"]]
            if not crash or rounds >= 5:
                break
            op = crash[0]["op"]
            if op not in SKIPPABLE or op in skip:
                break
            # continue past the failing operation class only when that failure is a known finding
            if ctx is None:
                ctx = case.ctx()
            kn = None
            for p in crash[0]["props"]:
                kn = self.known.match(dict(crash[0], property=p), ctx)
                if kn:
                    break
            if not kn:
                break
            skip.add(op)
            rounds += 1
        return case, final, allf

    def record(self, case, res, fs, nontrivial_fn=None):
        prop = self.prop
        out = res["out"]
        with self.lock:
            self.results.append((case, res))
            self.stat["cases"] += 1
            self.per_kind[case.kind] += 1
            self.per_state[case.state] += 1
            for k, v in out["counters"].items():
                self.counters[k] += v
            if res["status"] == "ok":   # input-shape classes of the cases that ran to the end (Appendix C)
                ih = case.ihash()
                base = self.in_classes.get(ih)
                if base is None:
                    base = self.in_classes[ih] = gen.input_classes(case.S, 0)
                for c in base | gen.bucket_classes(len(case.S), case.bs()):
                    self.counters["cls.in_" + c] += 1
            if len(self.samples) < 10 and out["samples"]:
                self.samples.append(out["samples"][0])
            if res["status"] == "harness":
                self.stat["harness_errors"] += 1
                log("[harness] %s: %s %s" % (case.key(), out["err"], res["stderr"][-300:]))
            ctx = None
            blocked = False
            relevant_any = False
            seen_here = set()
            for f in fs:
                if f["fclass"] == "wall-timeout":
                    self.stat["inconclusive_wall"] += 1
                    continue
                # an abnormal end anywhere in a scenario of this property means the property could not hold on that execution
                # (the dictionary could not be built / loaded / destroyed): it is reported under this property as well as under C07
                if prop in f["props"] or f["crash"]:
                    relevant_any = True
                    if ctx is None:
                        ctx = case.ctx()
                    sig = dict(property=prop, kind=f["kind"], state=f["state"], op=f["op"], fclass=f["fclass"], site=f["site"], qcls=f["qcls"])
                    kn = self.known.match(sig, ctx)
                    skey = "|".join(sig[k] for k in ("property", "kind", "state", "op", "fclass", "site", "qcls"))
                    if skey in seen_here:
                        continue
                    seen_here.add(skey)
                    if kn:
                        self.known_seen[kn["id"]] += 1
                        self.stat["known_observations"] += 1
                        continue
                    e = self.findings.get(skey)
                    if e is None:
                        self.findings[skey] = {"sig": sig, "count": 1, "case": case, "detail": f["detail"], "stderr": f.get("stderr", ""), "crash": f["crash"]}
                    else:
                        e["count"] += 1
                        if len(case.S) < len(e["case"].S):
                            e["case"], e["detail"], e["stderr"] = case, f["detail"], f.get("stderr", "")
                elif f["crash"]:
                    blocked = True
                    if ctx is None:
                        ctx = case.ctx()
                    kn = None
                    for p in f["props"]:
                        kn = self.known.match(dict(property=p, kind=f["kind"], state=f["state"], op=f["op"], fclass=f["fclass"], site=f["site"], qcls=f["qcls"]), ctx)
                        if kn:
                            break
                    if kn:
                        self.stat["blocked_by_known"] += 1
                    else:
                        self.stat["blocked_by_unknown"] += 1
                        bk = "|".join(["C07", f["kind"], f["state"], f["op"], f["fclass"], f["site"], f["qcls"]])
                        if bk not in self.blocked:
                            self.blocked[bk] = {"sig": dict(property="C07", kind=f["kind"], state=f["state"], op=f["op"], fclass=f["fclass"], site=f["site"], qcls=f["qcls"]),
                                                "count": 0, "case": case, "detail": f["detail"], "stderr": f.get("stderr", ""), "crash": True}
                        self.blocked[bk]["count"] += 1
                        self.stat_blocked_example = "%s %s %s op=%s %s at %s" % (case.kind, case.state, case.iname, f["op"], f["fclass"], f["site"])
            if res["status"] == "ok":
                self.stat["completed"] += 1
                self.all_keys.add(case.key())
                if nontrivial_fn is None or nontrivial_fn(case, out["counters"]):
                    self.nontrivial_keys.add(case.key())
            elif res["status"] == "crash":
                self.stat["crashed"] += 1

    def run_all(self, cases, nontrivial_fn=None, progress=True):
        t0 = time.time()
        done = 0
        with ThreadPoolExecutor(max_workers=JOBS) as ex:
            for case, res, fs in ex.map(self.run_case, cases):
                self.record(case, res, fs, nontrivial_fn)
                done += 1
                if progress and done % 500 == 0:
                    log("[%s] %d/%d cases, %d new signatures, %.0fs" % (self.prop, done, len(cases), len(self.findings), time.time() - t0))
        return time.time() - t0

    def add_finding(self, sig, case, detail):
        """findings produced by cross-case comparison"""
        ctx = case.ctx()
        kn = self.known.match(sig, ctx)
        if kn:
            self.known_seen[kn["id"]] += 1
            self.stat["known_observations"] += 1
            return
        skey = "|".join(sig[k] for k in ("property", "kind", "state", "op", "fclass", "site", "qcls"))
        e = self.findings.get(skey)
        if e is None:
            self.findings[skey] = {"sig": sig, "count": 1, "case": case, "detail": detail, "stderr": "", "crash": False}
        else:
            e["count"] += 1
