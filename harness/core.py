# Orchestration core: building flavors, running one case per process, classifying what the monitors and the
# sanitizers observed into signatures, matching known findings, writing evidence and replay files.
import os, sys, json, re, time, subprocess, resource, hashlib, shutil, signal, fcntl, threading, base64
from concurrent.futures import ThreadPoolExecutor

VERIF = os.path.dirname(os.path.dirname(os.path.abspath(__file__)))
REPO = os.environ.get("VERIF_REPO", "/repo")
BUILD = os.path.join(VERIF, ".build")
JOBS = int(os.environ.get("VERIF_JOBS", "16"))
PY = "/usr/bin/python3"

def log(*a):
    print(*a, file=sys.stderr, flush=True)

# ------------------------------------------------------------------------------------------------ build
def build(flavor):
    os.makedirs(BUILD, exist_ok=True)
    lock = open(os.path.join(BUILD, flavor + ".lock"), "w")
    fcntl.flock(lock, fcntl.LOCK_EX)
    try:
        t0 = time.time()
        p = subprocess.run(["make", "-f", os.path.join(VERIF, "harness/build.mk"), "FLAVOR=" + flavor, "REPO=" + REPO, "VERIF=" + VERIF, "-j%d" % JOBS],
                           stdout=subprocess.PIPE, stderr=subprocess.STDOUT, cwd=VERIF)
        if p.returncode != 0:
            sys.stdout.write(p.stdout.decode(errors="replace")[-6000:])
            log("BUILD FAILED flavor=%s" % flavor)
            sys.exit(2)
        log("[build] %s ok in %.1fs" % (flavor, time.time() - t0))
    finally:
        fcntl.flock(lock, fcntl.LOCK_UN)
        lock.close()

def binpath(flavor, name):
    return os.path.join(BUILD, flavor, name)

# ------------------------------------------------------------------------------------------------ running
ASAN_BASE = "detect_leaks=0:abort_on_error=0:halt_on_error=1:allocator_may_return_null=1:detect_stack_use_after_return=0:malloc_context_size=12:symbolize=1:exitcode=66"
UBSAN_BASE = "print_stacktrace=1:halt_on_error=1:abort_on_error=1"
TSAN_BASE = "halt_on_error=0:second_deadlock_stack=1:exitcode=0:report_signal_unsafe=0"

def _limits(cpu_s, mem_mb):
    def f():
        os.setsid()
        resource.setrlimit(resource.RLIMIT_CPU, (cpu_s, cpu_s + 5))
        try:
            resource.setrlimit(resource.RLIMIT_STACK, (512 << 20, 512 << 20))
        except Exception:
            pass
        resource.setrlimit(resource.RLIMIT_CORE, (0, 0))
    return f

def parse_out(path):
    r = {"viol": [], "counters": {}, "tsec": {}, "images": {}, "samples": [], "crumb": None, "done": False, "err": None}
    try:
        data = open(path, "rb").read().decode("latin-1")
    except OSError:
        return r
    for ln in data.split("\n"):
        if not ln:
            continue
        f = ln.split("\t")
        t = f[0]
        if t == "V" and len(f) >= 6:
            r["viol"].append({"props": f[1].split(","), "op": f[2], "fclass": f[3], "qcls": f[4], "detail": "\t".join(f[5:])})
        elif t == "S" and len(f) >= 3:
            try:
                r["counters"][f[1]] = r["counters"].get(f[1], 0) + int(f[2])
            except ValueError:
                pass
        elif t == "T" and len(f) >= 5:
            r["tsec"][f[1]] = (f[2], f[3], int(f[4]))
        elif t == "I" and len(f) >= 4:
            r["images"][f[1]] = (f[2], int(f[3]))
        elif t == "X":
            r["samples"].append("\t".join(f[1:]))
        elif t == "C" and len(f) >= 4:
            r["crumb"] = {"why": f[1], "props": f[2].split(","), "op": f[3], "detail": "\t".join(f[4:])}
        elif t == "D":
            r["done"] = True
        elif t == "E":
            r["err"] = "\t".join(f[1:])
    return r

FRAME_RE = re.compile(r"^\s*#(\d+) 0x[0-9a-f]+ in (.+?) (/[^ ]+?):(\d+)", re.M)
FRAME2_RE = re.compile(r"^\s*#(\d+) 0x[0-9a-f]+ in (\S+)", re.M)
TSAN_FRAME_RE = re.compile(r"^\s*#(\d+) (.+?) (/[^ :]+):(\d+)", re.M)

def _fname(sym):
    sym = re.sub(r"\(.*$", "", sym).strip()
    sym = re.sub(r"<.*>", "", sym)
    return sym.split(" ")[-1] if sym else "?"

def site_of(stderr_text):
    """top stack frame inside the repository, as a function name (no line numbers)"""
    # only the first report's first stack
    for m in list(FRAME_RE.finditer(stderr_text)) or list(TSAN_FRAME_RE.finditer(stderr_text)):
        path = m.group(3)
        if "/harness/" in path or "/usr/" in path or "libsanitizer" in path:
            continue
        if path.startswith(REPO + "/") or "/libcds/" in path or path.startswith("/repo/") or re.search(r"/(Hash|RePair|utils|XBW|FMIndex|HuTucker|Huffman|iterators|parallel)/|/StringDictionary", path):
            return _fname(m.group(2))
    return "?"

def classify_stderr(text):
    """-> (failure class, site) from sanitizer output, or (None, None)"""
    m = re.search(r"ERROR: AddressSanitizer: ([\w-]+)", text)
    if m:
        kind = m.group(1)
        if kind == "SEGV":
            rw = re.search(r"The signal is caused by a (READ|WRITE)", text)
            kind = "SEGV"
        i = m.start()
        return "asan:" + kind, site_of(text[i:])
    m = re.search(r"^(\S+?):(\d+):(\d+): runtime error: (.*)$", text, re.M)
    if m:
        msg = m.group(4)
        cat = "other"
        for key, c in (("null pointer", "null"), ("misaligned", "alignment"), ("out of bounds", "bounds"), ("does not point to an object", "vptr"),
                       ("not a valid value for type 'bool'", "bool"), ("not a valid value for type", "enum"), ("unreachable", "unreachable"), ("without returning", "return")):
            if key in msg:
                cat = c
                break
        st = site_of(text[m.start():])
        if st == "?":
            st = os.path.basename(m.group(1))
        return "ubsan:" + cat, st
    if "ThreadSanitizer: data race" in text:
        return "tsan:race", site_of(text)
    return None, None

class Runner:
    def __init__(self, workdir):
        self.workdir = workdir
        os.makedirs(workdir, exist_ok=True)
        self.seq = 0
        self.lock = threading.Lock()

    def next_id(self):
        with self.lock:
            self.seq += 1
            return self.seq

    def run(self, argv, env_extra=None, cpu_s=60, wall_s=600, keep_err=True, out_path=None, tag=""):
        """runs one monitored process; returns dict(status, rc, sig, out(parsed), stderr)"""
        cid = self.next_id()
        outp = out_path or os.path.join(self.workdir, "c%d.out" % cid)
        errp = os.path.join(self.workdir, "c%d.err" % cid)
        env = dict(os.environ)
        env["ASAN_OPTIONS"] = ASAN_BASE
        env["UBSAN_OPTIONS"] = UBSAN_BASE
        env["TSAN_OPTIONS"] = TSAN_BASE
        env["LC_ALL"] = "C"
        if env_extra:
            for k, v in env_extra.items():
                if k in ("ASAN_OPTIONS", "TSAN_OPTIONS", "UBSAN_OPTIONS") and v.startswith("+"):
                    env[k] = env[k] + ":" + v[1:]
                else:
                    env[k] = v
        argv = list(argv) + ["--out", outp]
        t0 = time.time()
        status = "ok"
        with open(errp, "wb") as ef:
            try:
                p = subprocess.Popen(argv, stdout=subprocess.DEVNULL, stderr=ef, stdin=subprocess.DEVNULL, env=env, preexec_fn=_limits(cpu_s, 0), cwd=self.workdir)
            except OSError as e:
                return {"status": "harness", "rc": -1, "sig": 0, "out": parse_out("/nonexistent"), "stderr": str(e), "wall": 0, "argv": argv}
            try:
                rc = p.wait(timeout=wall_s)
            except subprocess.TimeoutExpired:
                try:
                    os.killpg(p.pid, signal.SIGKILL)
                except OSError:
                    pass
                rc = p.wait()
                status = "wall"
        wall = time.time() - t0
        out = parse_out(outp)
        try:
            with open(errp, "rb") as f:
                f.seek(0, 2)
                sz = f.tell()
                f.seek(max(0, sz - 200000) if sz > 400000 else 0)
                err = f.read(400000).decode("latin-1")
        except OSError:
            err = ""
        sig = -rc if rc < 0 else 0
        if status != "wall" and sig == signal.SIGKILL:
            # nothing in the process raises SIGKILL: it was killed from outside (out-of-memory killer on a loaded machine, an
            # operator) - like a wall-clock timeout this decides nothing: the caller re-runs once and then counts it as inconclusive
            status = "wall"
        if status != "wall":
            if out["done"] and rc == 0:
                status = "ok"
            elif out["err"]:
                status = "harness"
            else:
                status = "crash"
        for pth in (outp, errp):
            if not out_path or pth != out_path:
                try:
                    os.unlink(pth)
                except OSError:
                    pass
        return {"status": status, "rc": rc, "sig": sig, "out": out, "stderr": err, "wall": wall, "argv": argv}

def crash_signature(res):
    """(fclass, site, op, props, detail) of an abnormal end"""
    out = res["out"]
    fclass, site = classify_stderr(res["stderr"])
    crumb = out["crumb"] or {"why": "?", "props": ["C07"], "op": "?", "detail": ""}
    if fclass is None:
        sig = res["sig"]
        why = crumb["why"]
        if res["status"] == "wall":
            fclass = "wall-timeout"      # killed by the watchdog (or from outside): inconclusive, never a verdict
        elif sig == signal.SIGXCPU or why == "SIGXCPU":
            fclass = "cpu-limit"
        elif sig == signal.SIGSEGV or why == "SIGSEGV":
            fclass = "segv"
        elif sig == signal.SIGABRT or why == "SIGABRT":
            fclass = "abort"
            m = re.search(r"(double free|free\(\): invalid|corrupted|Assertion .* failed|terminate called after throwing an instance of '[^']+')", res["stderr"])
            if m:
                fclass = "abort:" + re.sub(r"[^A-Za-z:_]+", "-", m.group(1))[:40]
        elif sig:
            fclass = "signal:%d" % sig
        elif res["status"] == "wall":
            fclass = "wall-timeout"
        else:
            fclass = "exit:%d" % res["rc"]
        site = "?"
    return fclass, site, crumb["op"], crumb["props"], crumb["detail"]

# ------------------------------------------------------------------------------------------------ known findings
class Known:
    def __init__(self, path=None):
        path = path or os.path.join(VERIF, "known_findings.json")
        self.entries = []
        if os.path.exists(path) and os.path.getsize(path) > 0:
            self.entries = json.load(open(path)).get("findings", [])
        self.seen = {}

    @staticmethod
    def _m(pat, val):
        if pat is None:
            return True
        if isinstance(pat, list):
            return val in pat
        return re.fullmatch(pat, val or "") is not None

    def match(self, f, ctx):
        """f: finding dict(property, kind, state, op, fclass, site, qcls); ctx: case variables for 'pred'"""
        for e in self.entries:
            if e.get("status") != "open":
                continue
            props = e.get("property")
            if isinstance(props, str):
                props = [props]
            if props and "*" not in props and f["property"] not in props:
                continue
            mt = e.get("match", {})
            ok = all(self._m(mt.get(k), f.get(k, "")) for k in ("kind", "state", "op", "fclass", "site", "qcls"))
            if not ok:
                continue
            pred = mt.get("pred")
            if pred:
                try:
                    env = dict(ctx, len=len, min=min, max=max, any=any, all=all, enumerate=enumerate, range=range)
                    env["__builtins__"] = {}
                    if not eval(pred, env):   # (one namespace: generator expressions only see globals)
                        continue
                except Exception:
                    continue
            return e
        return None

# ------------------------------------------------------------------------------------------------ evidence / replays
def write_json_atomic(path, obj):
    os.makedirs(os.path.dirname(path), exist_ok=True)
    tmp = path + ".tmp%d" % os.getpid()
    with open(tmp, "w") as f:
        json.dump(obj, f, indent=1, sort_keys=False)
        f.write("\n")
    os.replace(tmp, path)

def b64list(S):
    return [base64.b64encode(s).decode() for s in S]

def unb64list(L):
    return [base64.b64decode(s) for s in L]

def short_hash(obj):
    return hashlib.sha1(json.dumps(obj, sort_keys=True, default=str).encode()).hexdigest()[:10]
