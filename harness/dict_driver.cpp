// One (kind, parameters, input set, object state, scenario) case per process.
// usage: dict_driver --kind K --p1 N --p2 N --p3 N --input FILE --state fresh|gen|own|resaved|concat|survivor|heir|cold|coldgen (the last two with --img-in FILE) --opt O
//                    --ops a,b,c --skip a,b --seed N --out FILE [--memalloc N] [--img-out FILE] [--tdump FILE] [--big]
#include "dict_ops.h"
#include "dict_hist.h"
#include <fstream>

static std::set<std::string> split_set(const std::string &s) {
  std::set<std::string> r;
  size_t p = 0;
  while (p <= s.size()) {
    size_t q = s.find(',', p);
    if (q == std::string::npos) q = s.size();
    if (q > p) r.insert(s.substr(p, q - p));
    p = q + 1;
  }
  return r;
}

static void emit_image(const char *name, const std::string &img) {
  obs::line(std::string("I\t") + name + "\t" + std::to_string(fnv1a(FNV0, img.data(), img.size())) + "\t" + std::to_string(img.size()));
}

static std::string first_diff(const std::string &a, const std::string &b) {
  size_t m = std::min(a.size(), b.size()), i = 0;
  while (i < m && a[i] == b[i]) i++;
  return "len " + std::to_string(a.size()) + " vs " + std::to_string(b.size()) + ", first difference at byte " + std::to_string(i);
}

// C08: save is pure and deterministic
static void op_save(Ctx &c, std::string *img_out) {
  if (!c.want("save"))
    return;
  // answers before
  Ctx probe = c; // copies model etc.; shares d
  probe.tsec.clear();
  probe.tdump = NULL;
  probe.samples_left = 0;
  probe.ops = {"locate", "extract", "locate_absent", "extractTable", "locatePrefix", "locateSubstr", "meta"};
  probe.skip = c.skip;
  auto run_probe = [&](Ctx &p) {
    p.rng = Rng(c.rng.s ^ 0x5151);
    op_meta(p);
    op_member(p);
    op_absent(p);
    op_prefix(p);
    op_substr(p);
    op_table(p);
  };
  long v0 = obs::n_viol;
  run_probe(probe);
  auto before = probe.tsec;
  obs::crumb("C08", "save", "first save");
  std::string img1 = save_image(c.d);
  obs::count("eval.save");
  probe.tsec.clear();
  run_probe(probe);
  auto after1 = probe.tsec;
  // a second save with an iterator open across it
  IteratorDictString *open_it = NULL;
  if (c.kind != K_XBW && c.want("extractTable")) {
    obs::crumb("C08", "save", "open table iterator across save");
    open_it = c.d->extractTable();
    if (open_it && open_it->hasNext()) {
      uint l;
      uchar *s = open_it->next(&l);
      delete[] s;
    }
  }
  obs::crumb("C08", "save", "second save");
  std::string img2 = save_image(c.d);
  obs::count("eval.save");
  if (open_it) {
    obs::crumb("C08", "save", "drain iterator opened before save");
    bool over, nullstr;
    std::vector<StrItem> rest = drain_strs(c, open_it, &over, &nullstr);
    if (rest.size() + 1 != c.m.n && c.m.n > 0)
      obs::violation("C08", "save", "wrong-answer", "iterator-across-save", "iterator opened before save yielded " + std::to_string(rest.size() + 1) + " of " + std::to_string(c.m.n));
    delete open_it;
  }
  probe.tsec.clear();
  run_probe(probe);
  auto after2 = probe.tsec;
  obs::crumb("C08", "save", "third save");
  std::string img3 = save_image(c.d);
  obs::count("eval.save", 1);
  (void)v0;
  auto same = [](std::map<std::string, Tsec> &a, std::map<std::string, Tsec> &b, std::string *sec) {
    for (auto &kv : a) {
      auto it = b.find(kv.first);
      if (it == b.end() || it->second.raw != kv.second.raw || it->second.items != kv.second.items) {
        *sec = kv.first;
        return false;
      }
    }
    return a.size() == b.size();
  };
  std::string sec;
  obs::count("eval.save_transcript", 2);
  if (!same(before, after1, &sec))
    obs::violation("C08", "save", "answers-changed", "after-first-save", "section " + sec + " differs after save");
  else if (!same(before, after2, &sec))
    obs::violation("C08", "save", "answers-changed", "after-second-save", "section " + sec + " differs after second save");
  obs::count("eval.save_bytes", 2);
  if (img1 != img2)
    obs::violation("C08", "save", "nondeterministic", "second-save", "second save differs from first: " + first_diff(img1, img2));
  else if (img1 != img3)
    obs::violation("C08", "save", "nondeterministic", "third-save", "third save differs from first: " + first_diff(img1, img3));
  emit_image("save1", img1);
  if (img_out) *img_out = img1;
  c.sample(std::string(KIND_NAMES[c.kind]) + "/" + c.state + " save x3: " + std::to_string(img1.size()) + " bytes, identical=" + (img1 == img2 && img1 == img3 ? "yes" : "no"));
}

// ---- C16: loaders fail safe ------------------------------------------------------------
struct membuf : std::streambuf {
  membuf(char *b, size_t n) { setg(b, b, b + n); }
  pos_type seekoff(off_type off, std::ios_base::seekdir dir, std::ios_base::openmode) override {
    char *p = dir == std::ios_base::beg ? eback() + off : dir == std::ios_base::cur ? gptr() + off : egptr() + off;
    if (p < eback() || p > egptr()) return pos_type(off_type(-1));
    setg(eback(), p, egptr());
    return pos_type(p - eback());
  }
  pos_type seekpos(pos_type pos, std::ios_base::openmode m) override { return seekoff(off_type(pos), std::ios_base::beg, m); }
};

static void op_foreign_loaders(Ctx &c, const std::string &img_in) {
  std::string img = img_in.empty() ? save_image(c.d) : img_in;
  for (int k = 0; k < (int)K_NONE; k++) {
    if ((Kind)k == c.kind) continue;
    std::stringstream ss(img, std::ios::in | std::ios::binary);
    obs::crumb("C16", "foreign_loader", std::string(KIND_NAMES[k]) + "::load on an image of " + KIND_NAMES[c.kind]);
    StringDictionary *d = load_own((Kind)k, ss, c.opt);
    obs::count("eval.foreign_loader");
    if (d) obs::violation("C16", "foreign_loader", "fabricated", KIND_NAMES[k], std::string(KIND_NAMES[k]) + "::load accepted an image of kind " + KIND_NAMES[c.kind]);
  }
  c.sample(std::string("12 foreign own-loaders on an image of ") + KIND_NAMES[c.kind] + " (" + std::to_string(img.size()) + " bytes) must all return NULL");
}

static void op_bad_tags(Ctx &c, const std::string &img_in, uint64_t from, uint64_t to, uint64_t nrandom) {
  std::string img = img_in.empty() ? save_image(c.d) : img_in;
  std::vector<char> buf(img.begin(), img.end());
  auto known = [](uint32_t t) {
    return t == HASHHF || t == HASHUFFDAC || t == HASHRPF || t == HASHRPDAC || t == PFC || t == RPFC || t == HTFC || t == HHTFC || t == RPHTFC || t == RPDAC || t == FMINDEX || t == DXBW;
  };
  uint64_t tried = 0, bad = 0;
  auto probe = [&](uint32_t t) {
    if (known(t)) return;
    memcpy(buf.data(), &t, 4);
    membuf mb(buf.data(), buf.size());
    std::istream in(&mb);
    StringDictionary *d = StringDictionary::load(in, c.opt);
    tried++;
    if (d) {
      bad++;
      if (bad <= 5) obs::violation("C16", "bad_tag", "fabricated", "tag", "generic loader returned an object for unknown type tag " + std::to_string(t));
    }
  };
  obs::crumb("C16", "bad_tag", "range " + std::to_string(from) + ".." + std::to_string(to));
  for (uint64_t t = from; t < to; t++) probe((uint32_t)t);
  for (uint32_t kt : {HASHHF, HASHUFFDAC, HASHRPF, HASHRPDAC, HASHRPDACBlocks, PFC, RPFC, HTFC, HHTFC, RPHTFC, RPDAC, FMINDEX, DXBW})
    for (int dlt : {-2, -1, 1, 2, 256, 65536}) probe(kt + dlt);
  for (uint32_t t : {0u, 0xFFFFFFFFu, 0x80000000u, 0x7FFFFFFFu, 0x0B000000u, 0xD3000000u}) probe(t);
  Rng r(c.rng.s ^ 0x7A65);
  obs::crumb("C16", "bad_tag", "random tags");
  for (uint64_t i = 0; i < nrandom; i++) probe((uint32_t)r.next());
  obs::count("eval.bad_tag", (long)tried);
  c.sample("generic loader on an image of " + std::string(KIND_NAMES[c.kind]) + " with " + std::to_string(tried) + " unknown type tags (range " + std::to_string(from) + ".." + std::to_string(to) + " + neighbours of known tags + " + std::to_string(nrandom) + " random) must return NULL");
}

int main(int argc, char **argv) {
  std::string kind_s, input, state = "fresh", out, ops, skip, imgout, imgin, tdump;
  bool neighbour = false;
  Ctx c;
  uint64_t seed = 1;
  long memalloc = 0, qbs = -1;
  uint64_t tag_from = 0, tag_to = 0, tag_random = 0;
  for (int i = 1; i < argc; i++) {
    std::string a = argv[i];
    auto val = [&]() { return std::string(i + 1 < argc ? argv[++i] : ""); };
    if (a == "--kind") kind_s = val();
    else if (a == "--p1") c.P.p1 = atol(val().c_str());
    else if (a == "--p2") c.P.p2 = atol(val().c_str());
    else if (a == "--p3") c.P.p3 = atol(val().c_str());
    else if (a == "--p4") c.P.p4 = atol(val().c_str());
    else if (a == "--input") input = val();
    else if (a == "--state") state = val();
    else if (a == "--opt") c.opt = (uint)atol(val().c_str());
    else if (a == "--ops") ops = val();
    else if (a == "--skip") skip = val();
    else if (a == "--seed") seed = strtoull(val().c_str(), NULL, 10);
    else if (a == "--out") out = val();
    else if (a == "--memalloc") memalloc = atol(val().c_str());
    else if (a == "--img-out") imgout = val();
    else if (a == "--img-in") imgin = val();
    else if (a == "--neighbour") neighbour = true;
    else if (a == "--tdump") tdump = val();
    else if (a == "--big") c.big = true;
    else if (a == "--qbs") qbs = atol(val().c_str());
    else if (a == "--tag-from") tag_from = strtoull(val().c_str(), NULL, 10);
    else if (a == "--tag-to") tag_to = strtoull(val().c_str(), NULL, 10);
    else if (a == "--tag-random") tag_random = strtoull(val().c_str(), NULL, 10);
    else { fprintf(stderr, "unknown arg %s\n", a.c_str()); return 2; }
  }
  obs::install(out.empty() ? NULL : out.c_str(),
#if defined(__SANITIZE_ADDRESS__)
               false
#else
               true
#endif
  );
  {
    struct rlimit rl;
    if (getrlimit(RLIMIT_STACK, &rl) == 0) { /* set by the orchestrator */ }
  }
  c.kind = kind_of(kind_s);
  if (c.kind == K_NONE) { fprintf(stderr, "bad kind\n"); return 2; }
  c.state = state;
  c.rng = Rng(seed);
  c.ops = split_set(ops);
  c.skip = split_set(skip);
  if (!tdump.empty()) c.tdump = fopen(tdump.c_str(), "w");
  if (is_fc(c.kind)) c.bs = c.P.p1 < 2 ? 2 : c.P.p1;
  if (qbs >= 0) c.bs = qbs; // query generation independent of the real bucket size (C12 compares transcripts across parameters)
#ifdef LIBCSD_VERIF
  if (memalloc > 0) libcsd_verif::memalloc_ref().store((size_t)memalloc);
#endif
  // ---- input
  std::vector<std::string> strs;
  {
    std::ifstream in(input, std::ios::binary);
    if (!in.good()) { fprintf(stderr, "cannot read input\n"); return 2; }
    std::string all((std::istreambuf_iterator<char>(in)), std::istreambuf_iterator<char>());
    size_t p = 0;
    while (p < all.size()) {
      size_t q = all.find('\0', p);
      if (q == std::string::npos) q = all.size();
      strs.push_back(all.substr(p, q - p));
      p = q + 1;
    }
  }
  std::string why = c.m.init(strs);
  if (!why.empty()) { fprintf(stderr, "invalid input: %s\n", why.c_str()); obs::line("E\tinvalid-input\t" + why); obs::flush(); return 2; }
  strs.clear();

  // ---- build
  // --neighbour: another, different dictionary of the same kind is built and searched first, stays alive while the dictionary under
  // test is built, loaded and queried, and is searched again at the end: no dictionary may notice the other one
  Model nbm;
  StringDictionary *nb = NULL;
  auto check_neighbour = [&](const char *when) {
    for (size_t i = 0; i < nbm.n; i++) {
      Pat p(nbm.S[i]);
      obs::crumb("C14", "neighbour", std::string(when) + ": locate(" + nbm.S[i] + ") on the neighbour dictionary");
      size_t id = nb->locate(p.b, (uint)p.len);
      obs::count("eval.neighbour");
      uint len = 0;
      uchar *e = id >= 1 && id <= nbm.n ? nb->extract(id, &len) : NULL;
      if (!e || nbm.S[i] != (char *)e)
        obs::violation("C14,C01", "neighbour", "wrong-answer", when, std::string(when) + ": the neighbour dictionary {alpha..zeta} answers locate/extract(" + nbm.S[i] + ") with id " + std::to_string(id));
      delete[] e;
    }
  };
  if (neighbour && state != "cold" && state != "coldgen") {
    std::string w = nbm.init({"alpha", "alpine", "beta", "betamax", "gamma", "gammb", "zeta"});
    Params NP = c.P;
    if (c.kind == K_FMINDEX && NP.p3 > 7) NP.p3 = 4;
    obs::crumb("C07", "build", "neighbour dictionary");
    nb = build_dict(c.kind, NP, nbm);
    obs::count("cls.neighbour_dictionary");
    check_neighbour("before");
  } else neighbour = false;
  // "cold" / "coldgen": this process builds nothing; it loads (own / generic loader) an image that another process wrote to --img-in
  bool cold = state == "cold" || state == "coldgen";
  std::string lstate = state == "cold" ? "own" : state == "coldgen" ? "gen" : state;
  StringDictionary *fresh = NULL;
  if (!cold) {
    obs::crumb("C07", "build", std::string(KIND_NAMES[c.kind]) + " n=" + std::to_string(c.m.n));
    fresh = build_dict(c.kind, c.P, c.m);
#ifdef LIBCSD_VERIF
    obs::count("growth_n", (long)libcsd_verif::realloc_count().load());
#endif
    obs::count("built");
  }
  std::string img;
  if (state == "fresh") {
    c.d = fresh;
  } else if (state == "heir") {
    // the loaded copy is created while the built object is alive, the built object is destroyed, the loaded copy answers
    obs::crumb("C06,C08", "save", "save for reload");
    img = save_image(fresh);
    emit_image("built", img);
    std::stringstream ss(img, std::ios::in | std::ios::binary);
    obs::crumb("C06", "load", "own loader opt=" + std::to_string(c.opt) + " next to the built object");
    c.d = load_own(c.kind, ss, c.opt);
    obs::count("eval.load");
    if (!c.d) obs::violation("C06", "load", "load-failed", "own", "own loader returned NULL for a valid image");
    else {
      long pos = (long)ss.tellg();
      obs::count("eval.consumed");
      if (ss.fail() || pos != (long)img.size())
        obs::violation("C06", "load", "leftover-bytes", "own", "loader consumed " + std::to_string(pos) + " of " + std::to_string(img.size()) + " bytes");
    }
    {
      obs::crumb("C07", "extract", "probe of the built object next to its loaded copy");
      uint len = 0;
      uchar *e = fresh->extract(1, &len);
      delete[] e;
    }
    obs::crumb("C07", "destroy", "delete built object (loaded copy alive)");
    delete fresh;
    fresh = NULL;
  } else if (state == "survivor") {
    // the built object stays; a loaded copy and a second built copy live next to it and are destroyed before it is queried
    obs::crumb("C06,C08", "save", "save for the short-lived copy");
    img = save_image(fresh);
    emit_image("built", img);
    std::stringstream ss(img, std::ios::in | std::ios::binary);
    obs::crumb("C06", "load", "own loader opt=" + std::to_string(c.opt) + " (short-lived copy)");
    StringDictionary *l = load_own(c.kind, ss, c.opt);
    obs::count("eval.load");
    if (!l) obs::violation("C06", "load", "load-failed", "own", "own loader returned NULL for a valid image");
    else {
      obs::crumb("C06", "extract", "probe of the short-lived copy");
      uint len = 0;
      uchar *e = l->extract(1, &len);
      if (!e) obs::violation("C06", "extract", "missing", "survivor", "short-lived loaded copy: extract(1) is NULL");
      else delete[] e;
      obs::crumb("C07", "destroy", "delete short-lived loaded copy");
      delete l;
    }
    obs::crumb("C07", "build", "second built copy");
    StringDictionary *b2 = build_dict(c.kind, c.P, c.m);
    obs::crumb("C07", "destroy", "delete second built copy");
    delete b2;
    c.d = fresh;
    img.clear();
  } else {
    if (cold) {
      std::ifstream f(imgin, std::ios::binary);
      if (!f.good()) { fprintf(stderr, "cannot read image\n"); obs::line("E\tmissing-image\t" + imgin); obs::flush(); return 2; }
      img.assign((std::istreambuf_iterator<char>(f)), std::istreambuf_iterator<char>());
      obs::count("cls.cold_load");
    } else {
      obs::crumb("C06,C08", "save", "save for reload");
      img = save_image(fresh);
      emit_image("built", img);
      if (!imgout.empty()) { std::ofstream f(imgout, std::ios::binary); f.write(img.data(), img.size()); }
      obs::crumb("C07", "destroy", "delete built object");
      delete fresh;
      fresh = NULL;
    }
    // a cold load reads the file itself (std::ifstream: short reads at buffer boundaries, real seeks), the other states a memory stream
    std::stringstream mem_in(cold ? std::string() : img, std::ios::in | std::ios::binary);
    std::ifstream file_in;
    if (cold) file_in.open(imgin, std::ios::binary);
    std::istream &ss = cold ? (std::istream &)file_in : (std::istream &)mem_in;
    if (cold) obs::count("cls.load_from_file_stream");
    if (lstate == "gen") {
      obs::crumb("C06", "load", "generic loader opt=" + std::to_string(c.opt) + (cold ? " in a process that built nothing" : ""));
      c.d = StringDictionary::load(ss, c.opt);
      obs::count("eval.load");
      if (!c.d) { obs::violation("C06", "load", "load-failed", "generic", "generic loader returned NULL for a valid image"); }
      else if (!dyn_type_ok(c.kind, c.d)) obs::violation("C06", "load", "wrong-type", "generic", "generic loader returned another kind");
    } else if (lstate == "own" || lstate == "resaved") {
      obs::crumb("C06", "load", "own loader opt=" + std::to_string(c.opt) + (cold ? " in a process that built nothing" : ""));
      c.d = load_own(c.kind, ss, c.opt);
      obs::count("eval.load");
      if (!c.d) obs::violation("C06", "load", "load-failed", "own", "own loader returned NULL for a valid image");
      else {
        long pos = (long)ss.tellg();
        obs::count("eval.consumed");
        if (ss.fail() || pos != (long)img.size())
          obs::violation("C06", "load", "leftover-bytes", "own", "loader consumed " + std::to_string(pos) + " of " + std::to_string(img.size()) + " bytes");
      }
      if (c.d && state == "resaved") {
        obs::crumb("C08", "resave", "save of loaded object");
        std::string img2 = save_image(c.d);
        emit_image("resaved", img2);
        obs::count("eval.resave");
        bool identical = img2 == img;
        obs::count(identical ? "resave.identical" : "resave.different");
        obs::crumb("C07", "destroy", "delete loaded object");
        delete c.d;
        c.d = NULL;
        std::stringstream s2(img2, std::ios::in | std::ios::binary);
        obs::crumb("C08", "resave", "load of re-saved image");
        c.d = load_own(c.kind, s2, c.opt);
        if (!c.d) obs::violation("C08", "resave", "load-failed", identical ? "identical" : "different", "re-saved image does not load: " + first_diff(img, img2));
      }
    } else if (lstate == "concat") {
      // img(A) || img(A) || canary: each own loader must consume exactly its image
      std::string canary("\xAA\xBB\xCC\xDD\xEE\xFF\x11\x22\x33\x44\x55\x66\x77\x88\x99\x01", 16);
      std::string cat = img + img + canary;
      std::stringstream ss(cat, std::ios::in | std::ios::binary);
      obs::crumb("C06", "load", "concat first image");
      StringDictionary *a = load_own(c.kind, ss, c.opt);
      long p1 = (long)ss.tellg();
      obs::count("eval.consumed");
      obs::count("cls.concat_images");
      if (!a) obs::violation("C06", "load", "load-failed", "concat", "first image of a concatenation does not load");
      else if (ss.fail() || p1 != (long)img.size()) obs::violation("C06", "load", "leftover-bytes", "concat", "first loader consumed " + std::to_string(p1) + " of " + std::to_string(img.size()));
      else {
        obs::crumb("C06", "load", "concat second image");
        StringDictionary *b = load_own(c.kind, ss, c.opt);
        long p2 = (long)ss.tellg();
        obs::count("eval.consumed");
        if (!b) obs::violation("C06", "load", "load-failed", "concat", "second image of a concatenation does not load");
        else if (ss.fail() || p2 != (long)(2 * img.size())) obs::violation("C06", "load", "leftover-bytes", "concat", "second loader ended at " + std::to_string(p2) + " expected " + std::to_string(2 * img.size()));
        else {
          char rest[16];
          ss.read(rest, 16);
          if (ss.gcount() != 16 || memcmp(rest, canary.data(), 16) != 0) obs::violation("C06", "load", "leftover-bytes", "concat", "canary after the images not intact");
        }
        if (b) {
          obs::crumb("C07", "destroy", "delete first of two loaded");
          delete a;
          a = b;
        }
      }
      c.d = a;
    } else { fprintf(stderr, "bad state\n"); return 2; }
  }
  obs::count("state_" + state);
  // a loaded dictionary that answers wrongly also violates the persistence round trip; a re-saved one the re-save clause
  if (lstate == "own" || lstate == "gen" || lstate == "concat" || lstate == "heir") obs::extra_props = ",C06";
  if (state == "resaved") obs::extra_props = ",C06,C08";
  if (state == "survivor") obs::extra_props = ",C14";   // another object's life cycle changed this object's answers
  if (neighbour) obs::extra_props += ",C14";
  strncpy(obs::extra_props_c, obs::extra_props.c_str(), sizeof(obs::extra_props_c) - 1);

  if (c.d) {
    op_meta(c);
    op_member(c);
    op_absent(c);
    op_badids(c);
    op_rank(c);
    op_prefix(c);
    op_substr(c);
    op_table(c);
    if (c.ops.count("unsupported")) op_unsupported(c);
    if (c.ops.count("foreign_loaders")) op_foreign_loaders(c, img);
    if (c.ops.count("bad_tags")) op_bad_tags(c, img, tag_from, tag_to, tag_random);
    if (c.ops.count("history")) op_history(c, img);
    if (c.ops.count("save")) op_save(c, NULL);
    if (c.ops.count("final_image")) {
      obs::crumb("C08", "save", "final image");
      std::string f = save_image(c.d);
      emit_image("final", f);
      if (!imgout.empty() && state == "fresh") { std::ofstream o(imgout, std::ios::binary); o.write(f.data(), f.size()); }
    }
    if (neighbour) check_neighbour("after");
    obs::crumb("C07", "destroy", "delete dictionary");
    delete c.d;
    c.d = NULL;
  }
  if (nb) {
    obs::crumb("C07", "destroy", "delete neighbour dictionary");
    delete nb;
  }
  for (auto &kv : c.tsec)
    obs::line("T\t" + kv.first + "\t" + std::to_string(kv.second.raw) + "\t" + std::to_string(kv.second.norm) + "\t" + std::to_string(kv.second.items));
  obs::count("violations", obs::n_viol);
  obs::dump_counters();
  obs::line("D\tok");
  obs::flush();
  if (c.tdump) fclose(c.tdump);
  _exit(0);
}
