// Online monitors: every answer of the dictionary is compared with the reference model.
#ifndef VERIF_DICT_OPS_H
#define VERIF_DICT_OPS_H
#include "crumb.h"
#include "dict_build.h"
#include "Hash/HashUtils.h"
#include <set>

static const uint SENT = 0xDEADBEEFu;

struct Tsec {
  uint64_t raw = FNV0, norm = FNV0;
  long items = 0;
};

struct Ctx {
  Kind kind = K_NONE;
  Params P;
  Model m;
  StringDictionary *d = NULL;
  std::string state = "fresh";
  uint opt = 1;
  Rng rng{1};
  std::set<std::string> skip;
  std::set<std::string> ops;
  bool big = false; // thorough-tier query volume
  long bs = 0;      // effective bucket size for FC kinds (after the documented clamp), else 0
  FILE *tdump = NULL;
  std::map<std::string, Tsec> tsec;
  long samples_left = 6;

  bool ordered() const { return is_ordered(kind); }
  bool want(const char *op) const { return (ops.empty() || ops.count(op)) && !skip.count(op); }
  void tr(const char *sec, const std::string &raw, const std::string &norm) {
    Tsec &t = tsec[sec];
    t.raw = fnv1a(t.raw, raw.data(), raw.size());
    t.raw = fnv1a(t.raw, "\n", 1);
    t.norm = fnv1a(t.norm, norm.data(), norm.size());
    t.norm = fnv1a(t.norm, "\n", 1);
    t.items++;
    if (tdump)
      fprintf(tdump, "%s\t%s\t%s\n", sec, obs::esc(raw, 200).c_str(), obs::esc(norm, 200).c_str());
  }
  void sample(const std::string &s) {
    if (samples_left > 0) {
      samples_left--;
      obs::line("X\t" + s);
    }
  }
};

struct Pat {
  uchar *b;
  size_t len;
  std::string orig;
  explicit Pat(const std::string &s) : len(s.size()), orig(s) {
    b = new uchar[len + 1];
    memcpy(b, s.data(), len);
    b[len] = 0;
  }
  bool intact() const { return b && memcmp(b, orig.c_str(), len + 1) == 0; }
  // the caller's buffer is reused / given back as soon as the call has returned: an iterator that still refers to it reads
  // freed (poisoned) memory, or other bytes, from then on
  void release() {
    if (b) {
      memset(b, 0xEE, len + 1);
      delete[] b;
      b = NULL;
    }
  }
  ~Pat() { delete[] b; }
  Pat(const Pat &) = delete;
};

static inline void chk_intact(const Pat &p, const char *op, const std::string &qcls) {
  obs::count("eval.pattern_intact");
  if (!p.intact())
    obs::violation("C14", op, "pattern-modified", qcls, "pattern=" + obs::esc(p.orig));
}

// ---- wrappers --------------------------------------------------------------------------
static inline size_t do_locate(Ctx &c, const std::string &q, const char *props, const char *op, const std::string &qcls) {
  Pat p(q);
  obs::crumb(props, op, "q=" + obs::esc(q));
  size_t id = c.d->locate(p.b, (uint)p.len);
  chk_intact(p, op, qcls);
  return id;
}

// returns true and fills out when a string came back; verifies NUL/len protocol
static inline bool do_extract(Ctx &c, size_t id, std::string *out, bool *isnull, uint *replen, const char *props, const char *op) {
  uint len = SENT;
  obs::crumb(props, op, "id=" + std::to_string(id));
  uchar *s = c.d->extract(id, &len);
  *replen = len;
  *isnull = (s == NULL);
  if (!s)
    return false;
  size_t real = strlen((char *)s); // ASan bounds this on the exact-size buffer the library returned
  out->assign((char *)s, real);
  if (len != real)
    obs::violation(props, op, "length-mismatch", "any", "id=" + std::to_string(id) + " reported=" + std::to_string(len) + " strlen=" + std::to_string(real));
  delete[] s;
  return true;
}

// ---- metadata (C15) --------------------------------------------------------------------
static inline void op_meta(Ctx &c) {
  if (!c.want("meta"))
    return;
  obs::crumb("C15", "meta");
  size_t ne = c.d->numElements();
  uint ml = c.d->maxLength();
  obs::count("eval.meta", 2);
  if (ne != c.m.n)
    obs::violation("C15,C06", "meta", "wrong-answer", "any", "numElements=" + std::to_string(ne) + " n=" + std::to_string(c.m.n));
  if (!(ml >= c.m.L && ml <= c.m.L + 1))
    obs::violation("C15,C06", "meta", "wrong-answer", "any", "maxLength=" + std::to_string(ml) + " longest=" + std::to_string(c.m.L));
  c.tr("meta", "n=" + std::to_string(ne) + " ml=" + std::to_string(ml), "n=" + std::to_string(ne));
  c.sample(std::string(KIND_NAMES[c.kind]) + "/" + c.state + " numElements=" + std::to_string(ne) + " (n=" + std::to_string(c.m.n) + ") maxLength=" + std::to_string(ml) + " (longest=" + std::to_string(c.m.L) + ")");
}

// ---- member round trip (C01, C03) ------------------------------------------------------
static inline std::vector<size_t> member_sample(Ctx &c) {
  std::vector<size_t> ix;
  size_t n = c.m.n;
  size_t cap = c.big ? 20000 : 1500;
  if (n <= cap) {
    for (size_t i = 0; i < n; i++)
      ix.push_back(i);
    return ix;
  }
  std::set<size_t> s;
  for (size_t i = 0; i < 48 && i < n; i++) {
    s.insert(i);
    s.insert(n - 1 - i);
  }
  if (c.bs > 0) { // bucket boundaries
    size_t nb = (n + c.bs - 1) / c.bs;
    for (int t = 0; t < 300; t++) {
      size_t b = c.rng.below(nb);
      for (long o : {-1L, 0L, 1L}) {
        long i = (long)(b * c.bs) + o;
        if (i >= 0 && (size_t)i < n)
          s.insert((size_t)i);
      }
    }
  }
  while (s.size() < cap)
    s.insert(c.rng.below(n));
  ix.assign(s.begin(), s.end());
  return ix;
}

static inline void op_member(Ctx &c) {
  const Model &m = c.m;
  std::vector<size_t> ix = member_sample(c);
  bool all = ix.size() == m.n;
  const char *props = c.ordered() ? "C01,C03" : "C01";
  std::vector<size_t> ids(ix.size(), 0);
  if (c.want("locate")) {
    std::set<size_t> seen;
    for (size_t k = 0; k < ix.size(); k++) {
      const std::string &s = m.S[ix[k]];
      size_t id = do_locate(c, s, props, "locate", "member");
      obs::count("eval.locate");
      ids[k] = id;
      c.tr("locate", obs::esc(s, 64) + "=" + std::to_string(id), obs::esc(s, 64) + (id ? "=found" : "=0"));
      if (id < 1 || id > m.n) {
        obs::violation(props, "locate", id == 0 ? "missing" : "wrong-answer", "member", "s=" + obs::esc(s) + " rank=" + std::to_string(ix[k] + 1) + " got=" + std::to_string(id));
        continue;
      }
      if (!seen.insert(id).second)
        obs::violation("C01", "locate", "duplicate-id", "member", "s=" + obs::esc(s) + " id=" + std::to_string(id));
      if (c.ordered() && id != ix[k] + 1)
        obs::violation("C03", "locate", "order", "member", "s=" + obs::esc(s) + " rank=" + std::to_string(ix[k] + 1) + " got=" + std::to_string(id));
      if (c.want("extract")) {
        std::string e;
        bool isnull;
        uint rl;
        obs::count("eval.extract");
        if (!do_extract(c, id, &e, &isnull, &rl, props, "extract") || e != s)
          obs::violation(props, "extract", isnull ? "missing" : "wrong-answer", "member", "id=" + std::to_string(id) + " expected=" + obs::esc(s) + " got=" + (isnull ? std::string("NULL") : obs::esc(e)));
      }
    }
    if (m.n > 0)
      c.sample(std::string(KIND_NAMES[c.kind]) + "/" + c.state + " locate(" + obs::esc(m.S[ix[0]], 40) + ")=" + std::to_string(ids[0]));
  }
  if (c.want("extract")) {
    // the other direction: every ID (or a sample of IDs) -> a member, and back
    std::set<std::string> got;
    for (size_t k = 0; k < ix.size(); k++) {
      size_t id = ix[k] + 1;
      std::string e;
      bool isnull;
      uint rl;
      obs::count("eval.extract");
      if (!do_extract(c, id, &e, &isnull, &rl, props, "extract")) {
        obs::violation(props, "extract", "missing", "member", "id=" + std::to_string(id) + " got=NULL");
        c.tr("extract", std::to_string(id) + "=NULL", "");
        continue;
      }
      c.tr("extract", std::to_string(id) + "=" + obs::esc(e, 64), "");
      if (!m.has(e)) {
        obs::violation(props, "extract", "wrong-answer", "member", "id=" + std::to_string(id) + " got=" + obs::esc(e) + " (not a member)");
        continue;
      }
      if (!got.insert(e).second)
        obs::violation("C01", "extract", "duplicate-string", "member", "id=" + std::to_string(id) + " got=" + obs::esc(e));
      if (c.ordered() && e != m.S[id - 1])
        obs::violation("C03", "extract", "order", "member", "id=" + std::to_string(id) + " expected=" + obs::esc(m.S[id - 1]) + " got=" + obs::esc(e));
      if (c.want("locate")) {
        size_t back = do_locate(c, e, props, "locate", "member");
        obs::count("eval.locate");
        if (back != id)
          obs::violation(props, "locate", "wrong-answer", "member", "locate(extract(" + std::to_string(id) + "))=" + std::to_string(back));
      }
    }
    if (all) {
      obs::count("eval.bijection");
      if (got.size() != m.n)
        obs::violation("C01", "extract", "not-bijective", "member", "distinct=" + std::to_string(got.size()) + " n=" + std::to_string(m.n));
    }
  }
}

// ---- absent strings (C02) --------------------------------------------------------------
struct AbsQ {
  std::string q, cls;
};
static inline bool valid_q(const std::string &q) {
  if (q.empty())
    return false;
  for (unsigned char ch : q)
    if (ch < 0x02 || ch > 0xFE)
      return false;
  return true;
}
static inline void add_abs(const Model &m, std::vector<AbsQ> &v, std::set<std::string> &seen, const std::string &q, const char *cls) {
  if (!valid_q(q) || m.has(q) || !seen.insert(q).second)
    return;
  v.push_back({q, cls});
}
static inline std::vector<AbsQ> gen_absent(Ctx &c) {
  const Model &m = c.m;
  std::vector<AbsQ> v;
  std::set<std::string> seen;
  Rng &r = c.rng;
  size_t n = m.n;
  int lowb = -1, highb = -1, gapb = -1, minp = 256, maxp = -1;
  for (int b = 2; b <= 0xFE; b++)
    if (m.present[b]) {
      if (b < minp) minp = b;
      if (b > maxp) maxp = b;
    }
  if (minp > 2) lowb = minp - 1;
  if (maxp < 0xFE) highb = maxp + 1;
  for (int b = minp + 1; b < maxp; b++)
    if (!m.present[b]) { gapb = b; break; }
  // before first / after last
  {
    const std::string &f = m.S[0];
    if (f.size() > 1) add_abs(m, v, seen, f.substr(0, f.size() - 1), "before_first");
    if ((unsigned char)f[0] > 2) add_abs(m, v, seen, std::string(1, (char)((unsigned char)f[0] - 1)), "before_first");
    if ((unsigned char)f.back() > 2) { std::string q = f; q.back() = (char)((unsigned char)q.back() - 1); add_abs(m, v, seen, q, "before_first"); }
    add_abs(m, v, seen, std::string(1, (char)2), "before_first");
    const std::string &l = m.S[n - 1];
    add_abs(m, v, seen, l + std::string(1, (char)2), "after_last");
    add_abs(m, v, seen, l + l, "after_last");
    if ((unsigned char)l[0] < 0xFE) add_abs(m, v, seen, std::string(1, (char)((unsigned char)l[0] + 1)), "after_last");
    add_abs(m, v, seen, std::string(m.L + 1, (char)0xFE), "after_last");
    add_abs(m, v, seen, std::string(1, (char)0xFE), "after_last");
  }
  size_t reps = c.big ? 400 : 60;
  for (size_t t = 0; t < reps; t++) {
    const std::string &s = m.S[t < 8 && t < n ? (t % 2 ? n - 1 - t / 2 : t / 2) : r.below(n)];
    // proper prefixes
    if (s.size() > 1) {
      add_abs(m, v, seen, s.substr(0, 1 + r.below(s.size() - 1)), "proper_prefix");
      add_abs(m, v, seen, s.substr(0, s.size() - 1), "proper_prefix");
    }
    // extensions
    add_abs(m, v, seen, s + (char)2, "extension");
    add_abs(m, v, seen, s + (char)0xFE, "extension");
    add_abs(m, v, seen, s + (char)(minp + r.below(maxp - minp + 1)), "extension");
    add_abs(m, v, seen, s + s.substr(0, 1 + r.below(s.size())), "extension");
    // last byte +-1
    {
      std::string q = s;
      unsigned char lb = (unsigned char)q.back();
      if (lb > 2) { q.back() = (char)(lb - 1); add_abs(m, v, seen, q, "last_byte_pm1"); }
      if (lb < 0xFE) { q.back() = (char)(lb + 1); add_abs(m, v, seen, q, "last_byte_pm1"); }
    }
    // mutation
    {
      std::string q = s;
      size_t pos = r.below(q.size());
      q[pos] = (char)(2 + r.below(0xFD));
      add_abs(m, v, seen, q, "mutation");
      std::string q2 = s;
      q2[r.below(q2.size())] = (char)(minp + r.below(maxp - minp + 1));
      add_abs(m, v, seen, q2, "mutation");
      if (s.size() > 2) { std::string q3 = s; q3.erase(r.below(q3.size()), 1); add_abs(m, v, seen, q3, "mutation"); }
    }
    // bytes that occur nowhere
    for (int which = 0; which < 3; which++) {
      int b = which == 0 ? lowb : which == 1 ? gapb : highb;
      const char *cls = which == 0 ? "absent_byte_low" : which == 1 ? "absent_byte_gap" : "absent_byte_high";
      if (b < 0) continue;
      add_abs(m, v, seen, std::string(1, (char)b), cls);
      std::string q = s;
      q[r.below(q.size())] = (char)b;
      add_abs(m, v, seen, q, cls);
      add_abs(m, v, seen, s + (char)b, cls);
      std::string q2 = s; q2.back() = (char)b;
      add_abs(m, v, seen, q2, cls);
      std::string q3 = s; q3[0] = (char)b;
      add_abs(m, v, seen, q3, cls);
    }
    // longer than every member
    add_abs(m, v, seen, s + std::string(m.L + 2 - s.size(), s[0]), "longer_than_max");
  }
  // between buckets (front-coding kinds): just above the last string of a bucket / just below a header
  if (c.bs > 0) {
    size_t nb = (n + c.bs - 1) / c.bs;
    size_t tries = std::min<size_t>(nb, c.big ? 200 : 40);
    for (size_t t = 0; t < tries; t++) {
      size_t b = nb <= tries ? t : r.below(nb);
      size_t hdr = b * c.bs;
      if (hdr > 0) {
        add_abs(m, v, seen, m.S[hdr - 1] + (char)2, "between_buckets");
        std::string q = m.S[hdr];
        if (q.size() > 1) add_abs(m, v, seen, q.substr(0, q.size() - 1), "between_buckets");
        if ((unsigned char)q.back() > 2) { q.back() = (char)((unsigned char)q.back() - 1); add_abs(m, v, seen, q + (char)0xFE, "between_buckets"); }
      }
      add_abs(m, v, seen, m.S[hdr] + (char)2, "after_header");
      size_t last = std::min(n, hdr + c.bs) - 1;
      add_abs(m, v, seen, m.S[last] + (char)0xFE, "after_bucket_last");
    }
  }
  // random strings over the used alphabet
  std::vector<int> used;
  for (int b = 2; b <= 0xFE; b++) if (m.present[b]) used.push_back(b);
  for (size_t t = 0; t < reps; t++) {
    size_t len = 1 + r.below(m.L + 2);
    std::string q;
    for (size_t i = 0; i < len; i++) q += (char)used[r.below(used.size())];
    add_abs(m, v, seen, q, "random_alphabet");
  }
  return v;
}

// absent strings whose first probe lands on the cell of a member (HASHRPF / HASHRPDAC hash the plain string)
static inline void gen_colliding(Ctx &c, std::vector<AbsQ> &v) {
  if (c.kind != K_HASHRPF && c.kind != K_HASHRPDAC)
    return;
  const Model &m = c.m;
  size_t tsize = nearest_prime((uint)(m.n * (1 + (c.P.p1 * 1.0 / 100.0))));
  if (tsize == 0) return;
  int maxp = 0;
  for (int b = 2; b <= 0xFE; b++) if (m.present[b]) maxp = b;
  std::set<std::string> seen;
  Rng r(c.rng.s ^ 0xC0111DEull); // own generator: the shared one must advance identically for every kind (C12 compares transcripts)
  size_t want = c.big ? 200 : 40, made = 0;
  for (size_t t = 0; t < want * 4 && made < want; t++) {
    const std::string &w = m.S[r.below(m.n)];
    size_t cell = bitwisehash((uchar *)w.data(), w.size(), tsize);
    // shapes: member + (max byte + 1) + tail ; member + tail ; mutated member
    for (int shape = 0; shape < 3; shape++) {
      for (int tries = 0; tries < 400; tries++) {
        std::string q = w;
        if (shape == 0) { if (maxp >= 0xFE) break; q += (char)(maxp + 1); }
        if (shape == 2) q[r.below(q.size())] = (char)(2 + r.below(0xFD));
        size_t tl = (shape == 2) ? r.below(2) : 1 + r.below(3);
        for (size_t i = 0; i < tl; i++) q += (char)(2 + r.below(0xFD));
        if (!valid_q(q) || m.has(q)) continue;
        if (bitwisehash((uchar *)q.data(), q.size(), tsize) != cell) continue;
        if (seen.insert(q).second) { v.push_back({q, shape == 0 ? "collide_maxchar" : shape == 1 ? "collide_extension" : "collide_mutation"}); made++; }
        break;
      }
    }
  }
}

static inline void op_absent(Ctx &c) {
  if (!c.want("locate_absent"))
    return;
  std::vector<AbsQ> qs = gen_absent(c);
  gen_colliding(c, qs);
  std::set<std::string> classes;
  for (auto &a : qs) {
    size_t id = do_locate(c, a.q, "C02", "locate_absent", a.cls);
    obs::count("eval.locate_absent");
    obs::count("cls.absent_" + a.cls);
    classes.insert(a.cls);
    c.tr(a.cls.compare(0, 8, "collide_") == 0 ? "absent_collide" : "absent", obs::esc(a.q, 64) + "=" + std::to_string(id), obs::esc(a.q, 64) + (id ? "=found" : "=0"));
    if (id != 0)
      obs::violation("C02", "locate_absent", "spurious", a.cls, "q=" + obs::esc(a.q) + " got=" + std::to_string(id));
  }
  obs::count("absent_classes_hit", (long)classes.size());
  if (!qs.empty())
    c.sample(std::string(KIND_NAMES[c.kind]) + "/" + c.state + " locate(absent " + qs[0].cls + " " + obs::esc(qs[0].q, 40) + ")");
}

static inline void op_badids(Ctx &c) {
  if (!c.want("extract_badid"))
    return;
  size_t n = c.m.n;
  std::vector<std::pair<size_t, const char *>> ids = {
      {0, "id_0"}, {n + 1, "id_n_plus_1"}, {n + 2, "id_n_plus_1"}, {2 * n + 1, "id_2n"}, {(size_t)1 << 31, "id_2p31"}, {((size_t)1 << 32) - 1, "id_2p32m1"},
      {(size_t)1 << 32, "id_uint_wrap"}, {((size_t)1 << 32) + 1, "id_uint_wrap"}, {((size_t)1 << 32) + n, "id_uint_wrap"}, {((size_t)1 << 33) + 1, "id_uint_wrap"},
      {((size_t)1 << 63), "id_2p63"}, {SIZE_MAX - 1, "id_size_max"}, {SIZE_MAX, "id_size_max"}};
  for (int t = 0; t < 8; t++)
    ids.push_back({n + 1 + c.rng.below(1000000), "id_gt_n"});
  for (auto &pr : ids) {
    if (pr.first >= 1 && pr.first <= n)
      continue;
    std::string e;
    bool isnull;
    uint rl;
    obs::count("eval.extract_badid");
    obs::count(std::string("cls.") + pr.second);
    bool got = do_extract(c, pr.first, &e, &isnull, &rl, "C02", "extract_badid");
    c.tr("badid", std::to_string(pr.first) + (got ? "=str" : "=NULL") + " len=" + std::to_string(rl), std::to_string(pr.first) + (got ? "=str" : "=NULL"));
    if (got)
      obs::violation("C02", "extract_badid", "spurious", pr.second, "id=" + std::to_string(pr.first) + " n=" + std::to_string(n) + " got=" + obs::esc(e));
    else if (rl != 0)
      obs::violation("C02", "extract_badid", "length-not-zero", pr.second, "id=" + std::to_string(pr.first) + " len=" + std::to_string(rl));
  }
}

// ---- rank (C03) ------------------------------------------------------------------------
static inline void op_rank(Ctx &c) {
  if (!c.want("rank"))
    return;
  std::vector<size_t> ix = member_sample(c);
  for (size_t k = 0; k < ix.size(); k++) {
    uint rk = (uint)(ix[k] + 1);
    uint len = SENT;
    obs::crumb("C03", "rank", "extractRank k=" + std::to_string(rk));
    uchar *s = c.d->extractRank(rk, &len);
    if (!s) { // the kind does not answer rank queries (C16 looks at that)
      obs::count("rank.unanswered");
      c.tr("rank", std::to_string(rk) + "=NULL", std::to_string(rk) + "=NULL");
      continue;
    }
    obs::count("eval.rank");
    std::string e((char *)s, strlen((char *)s));
    delete[] s;
    c.tr("rank", std::to_string(rk) + "=" + obs::esc(e, 64), std::to_string(rk) + "=" + obs::esc(e, 64));
    if (e != c.m.S[rk - 1])
      obs::violation("C03", "rank", "order", "any", "extractRank(" + std::to_string(rk) + ") expected=" + obs::esc(c.m.S[rk - 1]) + " got=" + obs::esc(e));
    if (len != e.size())
      obs::violation("C03", "rank", "length-mismatch", "any", "extractRank(" + std::to_string(rk) + ") reported=" + std::to_string(len));
    obs::crumb("C03", "rank", "locateRank k=" + std::to_string(rk));
    uint id = c.d->locateRank(rk);
    std::string e2;
    bool isnull;
    uint rl;
    obs::count("eval.rank");
    if (!do_extract(c, id, &e2, &isnull, &rl, "C03", "rank") || e2 != c.m.S[rk - 1])
      obs::violation("C03", "rank", "order", "any", "extract(locateRank(" + std::to_string(rk) + ")=" + std::to_string(id) + ") expected=" + obs::esc(c.m.S[rk - 1]) + " got=" + (isnull ? std::string("NULL") : obs::esc(e2)));
  }
}

// ---- iterator draining -----------------------------------------------------------------
static inline std::vector<size_t> drain_ids(Ctx &c, IteratorDictID *it, bool *overrun) {
  std::vector<size_t> r;
  *overrun = false;
  size_t cap = c.m.n + 2;
  while (it->hasNext()) {
    if (r.size() >= cap) {
      *overrun = true;
      break;
    }
    r.push_back(it->next());
  }
  return r;
}
struct StrItem {
  std::string s;
  uint replen;
};
static inline std::vector<StrItem> drain_strs(Ctx &c, IteratorDictString *it, bool *overrun, bool *nullstr) {
  std::vector<StrItem> r;
  *overrun = false;
  *nullstr = false;
  size_t cap = c.m.n + 2;
  while (it->hasNext()) {
    if (r.size() >= cap) {
      *overrun = true;
      break;
    }
    uint len = SENT;
    uchar *s = it->next(&len);
    if (!s) {
      *nullstr = true;
      break;
    }
    size_t real = strlen((char *)s);
    r.push_back({std::string((char *)s, real), len});
    delete[] s;
  }
  return r;
}
static inline std::string ids_str(const std::vector<size_t> &v) {
  std::string s = "[";
  for (size_t i = 0; i < v.size() && i < 12; i++)
    s += (i ? "," : "") + std::to_string(v[i]);
  if (v.size() > 12)
    s += ",..(" + std::to_string(v.size()) + ")";
  return s + "]";
}

// ---- prefix search (C04, C13) ----------------------------------------------------------
struct PQ {
  std::string p, cls;
};
static inline std::vector<PQ> gen_prefixes(Ctx &c) {
  const Model &m = c.m;
  Rng &r = c.rng;
  std::vector<PQ> v;
  std::set<std::string> seen;
  auto add = [&](const std::string &p, const char *cls) {
    if (valid_q(p) && seen.insert(p).second)
      v.push_back({p, cls});
  };
  size_t n = m.n;
  size_t reps = c.big ? 300 : 40;
  add(m.S[0].substr(0, 1), "first_byte");
  add(m.S[n - 1].substr(0, 1), "first_byte");
  add(m.S[0], "member");
  add(m.S[n - 1], "member");
  for (size_t t = 0; t < reps; t++) {
    size_t i = t < 6 && t < n ? (t % 2 ? n - 1 - t / 2 : t / 2) : r.below(n);
    const std::string &s = m.S[i];
    size_t maxp = std::min<size_t>(s.size(), c.big ? 40 : 12);
    for (size_t k = 1; k <= maxp; k++)
      if (k <= 3 || k == s.size() || r.chance(40))
        add(s.substr(0, k), "member_prefix");
    if (s.size() > 12) {
      add(s.substr(0, s.size() - 1), "member_prefix");
      add(s.substr(0, s.size() / 2), "member_prefix");
    }
    add(s, "member");
    add(s + (char)2, "prefix_plus_byte");
    add(s + (char)0xFE, "prefix_plus_byte");
    size_t k = 1 + r.below(s.size());
    std::string q = s.substr(0, k);
    q += (char)(2 + r.below(0xFD));
    add(q, "prefix_plus_byte");
    if (k >= 1) {
      std::string q2 = s.substr(0, k);
      unsigned char lb = (unsigned char)q2.back();
      if (lb > 2) { q2.back() = (char)(lb - 1); add(q2, "prefix_pm1"); }
      if (lb < 0xFE) { q2.back() = (char)(lb + 1); add(q2, "prefix_pm1"); }
    }
    // in-bucket offsets: members at every offset of a bucket as patterns
    if (c.bs > 0 && t < 4) {
      size_t nb = (n + c.bs - 1) / c.bs;
      size_t b = r.below(nb);
      for (long o = 0; o < c.bs && b * c.bs + o < n; o++) {
        const std::string &z = m.S[b * c.bs + o];
        add(z, "member");
        if (z.size() > 1) add(z.substr(0, z.size() - 1), "member_prefix");
      }
    }
  }
  // common prefix of the whole set / of neighbouring bucket headers
  {
    size_t l = 0;
    while (l < m.S[0].size() && l < m.S[n - 1].size() && m.S[0][l] == m.S[n - 1][l]) l++;
    if (l > 0) add(m.S[0].substr(0, l), "all_common");
  }
  add(std::string(m.L + 3, m.S[n / 2][0]), "longer_than_all");
  add(m.S[n - 1] + m.S[n - 1], "longer_than_all");
  add(std::string(1, (char)2), "before_all");
  if ((unsigned char)m.S[0][0] > 2) add(std::string(1, (char)((unsigned char)m.S[0][0] - 1)), "before_all");
  add(std::string(1, (char)0xFE), "after_all");
  if ((unsigned char)m.S[n - 1][0] < 0xFE) add(std::string(1, (char)((unsigned char)m.S[n - 1][0] + 1)), "after_all");
  add(m.S[n - 1] + (char)2, "after_all");
  for (int b = 2; b <= 0xFE; b++)
    if (!m.present[b]) {
      add(std::string(1, (char)b), "absent_byte");
      add(m.S[r.below(n)].substr(0, 1) + (char)b, "absent_byte");
      { // foreign byte in the middle, followed by a tail that does occur
        const std::string &z = m.S[r.below(n)];
        if (z.size() >= 2) {
          size_t k = r.below(z.size() - 1);
          std::string q = z.substr(0, std::min<size_t>(z.size(), k + 1 + 1 + r.below(4)));
          q[k] = (char)b;
          add(q, "absent_byte_inner");
          add(std::string(1, (char)b) + z.substr(0, 1 + r.below(std::min<size_t>(z.size(), 4))), "absent_byte_inner");
        }
      }
      if (v.size() > 4000) break;
      if (b > 8 && b < 0xF8 && !r.chance(6)) continue;
    }
  return v;
}

static inline void prefix_classes(Ctx &c, size_t lo, size_t hi) {
  if (lo > hi) {
    obs::count("cls.pfx_none");
    if (hi == 0) obs::count("cls.pfx_none_before");
    else if (lo > c.m.n) obs::count("cls.pfx_none_after");
    else obs::count("cls.pfx_none_inside");
    return;
  }
  if (lo == 1 && hi == c.m.n) obs::count("cls.pfx_all");
  if (c.bs > 0) {
    size_t b1 = (lo - 1) / c.bs, b2 = (hi - 1) / c.bs;
    if (b1 == b2) obs::count("cls.pfx_span1");
    else if (b2 == b1 + 1) obs::count("cls.pfx_span2");
    else obs::count("cls.pfx_span_many");
    if (hi % c.bs == 0 || hi == c.m.n) obs::count("cls.pfx_ends_at_bucket_end");
    if ((lo - 1) % c.bs == 0) obs::count("cls.pfx_starts_at_header");
    obs::count("cls.pfx_start_offset_" + std::to_string(std::min<size_t>((lo - 1) % c.bs, 8)));
  } else {
    obs::count(hi == lo ? "cls.pfx_single" : "cls.pfx_multi");
  }
}

static inline void op_prefix(Ctx &c) {
  if (!has_prefix(c.kind))
    return;
  bool wl = c.want("locatePrefix"), we = c.want("extractPrefix");
  if (!wl && !we)
    return;
  std::vector<PQ> qs = gen_prefixes(c);
  const Model &m = c.m;
  bool sampled = false;
  for (auto &pq : qs) {
    size_t lo, hi;
    m.prefixRange(pq.p, &lo, &hi);
    size_t cnt = lo <= hi ? hi - lo + 1 : 0;
    prefix_classes(c, lo, hi);
    std::string qcls = pq.cls + (cnt ? "" : "/nomatch");
    if (wl) {
      Pat p(pq.p);
      obs::crumb("C04,C13", "locatePrefix", "p=" + obs::esc(pq.p) + " cls=" + qcls);
      IteratorDictID *it = c.d->locatePrefix(p.b, (uint)p.len);
      obs::count("eval.locatePrefix");
      chk_intact(p, "locatePrefix", qcls);
      p.release();
      if (!it) {
        obs::violation("C04", "locatePrefix", "null-iterator", qcls, "p=" + obs::esc(pq.p));
      } else {
        bool over;
        std::vector<size_t> got = drain_ids(c, it, &over);
        bool still = it->hasNext();
        obs::crumb("C04,C13", "locatePrefix", "delete iterator p=" + obs::esc(pq.p));
        delete it;
        if (over)
          obs::violation("C04,C13", "locatePrefix", "spurious", qcls, "p=" + obs::esc(pq.p) + " iterator yields more than n+2 ids");
        else if (still)
          obs::violation("C13", "locatePrefix", "hasNext-after-end", qcls, "p=" + obs::esc(pq.p));
        c.tr("locatePrefix", obs::esc(pq.p, 64) + "=" + ids_str(got), obs::esc(pq.p, 64) + "=" + std::to_string(got.size()));
        // duplicates / order
        {
          std::set<size_t> u(got.begin(), got.end());
          if (u.size() != got.size())
            obs::violation("C04,C13", "locatePrefix", "duplicate-id", qcls, "p=" + obs::esc(pq.p) + " got=" + ids_str(got));
          if (c.ordered() && !std::is_sorted(got.begin(), got.end()))
            obs::violation("C04,C13", "locatePrefix", "order", qcls, "p=" + obs::esc(pq.p) + " got=" + ids_str(got));
        }
        if (!over) {
          if (c.ordered()) {
            std::vector<size_t> exp;
            for (size_t i = lo; i <= hi; i++) exp.push_back(i);
            if (got != exp)
              obs::violation("C04", "locatePrefix", got.size() < exp.size() ? "missing" : got.size() > exp.size() ? "spurious" : "wrong-answer", qcls,
                             "p=" + obs::esc(pq.p) + " expected=[" + std::to_string(lo) + ".." + std::to_string(hi) + "] got=" + ids_str(got));
          } else {
            // XBW: IDs are not ranks; compare the set of strings the IDs denote
            std::set<std::string> gs, es;
            bool bad = false;
            for (size_t id : got) {
              std::string e; bool isnull; uint rl;
              if (!do_extract(c, id, &e, &isnull, &rl, "C04", "locatePrefix")) { bad = true; break; }
              gs.insert(e);
            }
            for (size_t i = lo; i <= hi; i++) es.insert(m.S[i - 1]);
            if (bad || gs != es || got.size() != cnt)
              obs::violation("C04", "locatePrefix", got.size() < cnt ? "missing" : got.size() > cnt ? "spurious" : "wrong-answer", qcls,
                             "p=" + obs::esc(pq.p) + " expected " + std::to_string(cnt) + " ids, got=" + ids_str(got));
          }
        }
        if (!sampled && cnt > 1) {
          sampled = true;
          c.sample(std::string(KIND_NAMES[c.kind]) + "/" + c.state + " locatePrefix(" + obs::esc(pq.p, 40) + ")=" + ids_str(got) + " model=[" + std::to_string(lo) + ".." + std::to_string(hi) + "]");
        }
      }
    }
    if (we) {
      Pat p(pq.p);
      obs::crumb("C04,C13", "extractPrefix", "p=" + obs::esc(pq.p) + " cls=" + qcls);
      IteratorDictString *it = c.d->extractPrefix(p.b, (uint)p.len);
      obs::count("eval.extractPrefix");
      chk_intact(p, "extractPrefix", qcls);
      p.release();
      std::vector<StrItem> got;
      bool over = false, nullstr = false, still = false;
      if (it) {
        got = drain_strs(c, it, &over, &nullstr);
        still = !over && !nullstr && it->hasNext();
        obs::crumb("C04,C13", "extractPrefix", "delete iterator p=" + obs::esc(pq.p));
        delete it;
      }
      if (over)
        obs::violation("C04,C13", "extractPrefix", "spurious", qcls, "p=" + obs::esc(pq.p) + " iterator yields more than n+2 strings");
      if (nullstr)
        obs::violation("C04,C13", "extractPrefix", "null-string", qcls, "p=" + obs::esc(pq.p));
      if (still)
        obs::violation("C13", "extractPrefix", "hasNext-after-end", qcls, "p=" + obs::esc(pq.p));
      std::string tl;
      for (size_t i = 0; i < got.size() && i < 6; i++) tl += obs::esc(got[i].s, 24) + "|";
      c.tr("extractPrefix", obs::esc(pq.p, 64) + "=" + std::to_string(got.size()) + ":" + tl, obs::esc(pq.p, 64) + "=" + std::to_string(got.size()));
      for (auto &g : got)
        if (g.replen != g.s.size()) {
          obs::violation("C13", "extractPrefix", "length-mismatch", qcls, "p=" + obs::esc(pq.p) + " s=" + obs::esc(g.s) + " reported=" + std::to_string(g.replen));
          break;
        }
      if (!over && !nullstr) {
        bool ok = got.size() == cnt;
        if (ok) {
          if (c.ordered()) {
            for (size_t i = 0; i < cnt && ok; i++) ok = got[i].s == m.S[lo - 1 + i];
          } else {
            std::multiset<std::string> a, b;
            for (auto &g : got) a.insert(g.s);
            for (size_t i = lo; i <= hi; i++) b.insert(m.S[i - 1]);
            ok = a == b;
          }
        }
        if (!ok)
          obs::violation("C04", "extractPrefix", got.size() < cnt ? "missing" : got.size() > cnt ? "spurious" : "wrong-answer", qcls,
                         "p=" + obs::esc(pq.p) + " expected " + std::to_string(cnt) + " strings from rank " + std::to_string(lo) + ", got " + std::to_string(got.size()) + ": " + tl);
      }
    }
  }
}

// ---- substring search (C05, C13) -------------------------------------------------------
static inline bool has_substr(const Ctx &c) { return (c.kind == K_FMINDEX && c.P.p3 > 0) || c.kind == K_XBW; }
static inline std::vector<PQ> gen_substrs(Ctx &c) {
  const Model &m = c.m;
  Rng &r = c.rng;
  std::vector<PQ> v;
  std::set<std::string> seen;
  auto add = [&](const std::string &p, const char *cls) {
    if (valid_q(p) && seen.insert(p).second)
      v.push_back({p, cls});
  };
  size_t n = m.n;
  // prefixes of the lexicographically greatest / smallest suffix of any member: the first and the last row of a suffix-sorted index
  for (int which = 0; which < 2; which++) {
    int ext = -1;
    for (int x = 2; x <= 0xFE; x++)
      if (m.present[x] && (ext < 0 || which == 0)) ext = x;   // which==0: greatest byte, which==1: smallest byte
    const std::string *bs = NULL;
    size_t bp = 0, cand = 0;
    for (size_t i = 0; i < n && cand < 200000; i++) {
      const std::string &s = m.S[i];
      for (size_t k = 0; k < s.size(); k++) {
        if ((unsigned char)s[k] != ext) continue;
        cand++;
        if (!bs) { bs = &s; bp = k; continue; }
        int cmp;
        size_t la = s.size() - k, lb = bs->size() - bp, q = 0;
        while (q < la && q < lb && s[k + q] == (*bs)[bp + q]) q++;
        if (q == la || q == lb) cmp = la < lb ? -1 : (la > lb ? 1 : 0);
        else cmp = (unsigned char)s[k + q] < (unsigned char)(*bs)[bp + q] ? -1 : 1;
        if ((which == 0 && cmp > 0) || (which == 1 && cmp < 0)) { bs = &s; bp = k; }
      }
    }
    if (bs && cand < 200000) {
      std::string suf = bs->substr(bp);
      const char *cls = which == 0 ? "sub_greatest_suffix" : "sub_smallest_suffix";
      for (size_t l = 1; l <= 4 && l <= suf.size(); l++) add(suf.substr(0, l), cls);
      if (suf.size() <= 64) add(suf, cls);
    }
  }
  size_t reps = c.big ? 200 : 30;
  for (size_t t = 0; t < reps; t++) {
    size_t i = t < 4 && t < n ? (t % 2 ? n - 1 - t / 2 : t / 2) : r.below(n);
    const std::string &s = m.S[i];
    size_t ln = 1 + r.below(std::min<size_t>(s.size(), 10));
    add(s.substr(0, ln), "sub_start");
    add(s.substr(s.size() - ln), "sub_end");
    if (s.size() > 2) {
      size_t st = 1 + r.below(s.size() - 2);
      add(s.substr(st, 1 + r.below(std::min<size_t>(s.size() - st, 8))), "sub_middle");
    }
    if (s.size() <= 64 || t < 4) add(s, "sub_whole");
    add(s.substr(r.below(s.size()), 1), "sub_single_byte");
    // straddling two adjacent members: must not match (unless it occurs elsewhere; the model decides)
    if (i + 1 < n) {
      const std::string &u = m.S[i + 1];
      size_t a = 1 + r.below(std::min<size_t>(s.size(), 3)), b = 1 + r.below(std::min<size_t>(u.size(), 3));
      add(s.substr(s.size() - a) + u.substr(0, b), "sub_cross_boundary");
    }
    // absent variants
    std::string q = s.substr(0, ln);
    q += (char)(2 + r.below(0xFD));
    add(q, "sub_mutated");
    add(s + (char)2, "sub_extension");
  }
  // repeated inside a member
  for (size_t i = 0; i < n && v.size() < 3000; i++) {
    const std::string &s = m.S[i];
    if (s.size() < 2) continue;
    bool found = false;
    for (size_t l = 1; l <= 3 && l * 2 <= s.size() && !found; l++)
      for (size_t st = 0; st + l <= s.size() && !found; st++) {
        std::string p = s.substr(st, l);
        if (Model::occurrences(s, p) >= 2) { add(p, "sub_multi_occ"); found = true; }
      }
    if (i > 200 && !c.big) break;
  }
  for (int b = 2; b <= 0xFE; b++)
    if (!m.present[b]) {
      int maxp = 0;
      for (int x = 2; x <= 0xFE; x++) if (m.present[x]) maxp = x;
      const char *cls = b > maxp ? "sub_byte_above_alphabet" : "sub_absent_byte";
      add(std::string(1, (char)b), cls);
      add(m.S[r.below(n)].substr(0, 1) + (char)b, cls);
      add(std::string(1, (char)b) + m.S[r.below(n)].substr(0, 1), cls);
      {
        const std::string &z = m.S[r.below(n)];
        if (z.size() >= 3) {
          size_t k = 1 + r.below(z.size() - 2);
          std::string q = z.substr(0, std::min<size_t>(z.size(), k + 2 + r.below(3)));
          q[k] = (char)b;
          add(q, "sub_absent_byte_inner");
        }
      }
      if (b > 6 && b < 0xFA && !r.chance(5)) continue;
    }
  return v;
}

static inline void op_substr(Ctx &c) {
  if (!has_substr(c))
    return;
  bool wl = c.want("locateSubstr"), we = c.want("extractSubstr");
  if (!wl && !we)
    return;
  std::vector<PQ> qs = gen_substrs(c);
  const Model &m = c.m;
  bool sampled = false;
  for (auto &pq : qs) {
    std::vector<size_t> exp = m.substrSet(pq.p);
    std::string qcls = pq.cls + (exp.empty() ? "/nomatch" : "");
    obs::count("cls." + pq.cls);
    if (exp.empty()) obs::count("cls.sub_none");
    bool multi = false;
    for (size_t id : exp) if (Model::occurrences(m.S[id - 1], pq.p) > 1) multi = true;
    if (multi) obs::count("cls.sub_multi_occ_hit");
    std::multiset<std::string> es;
    for (size_t id : exp) es.insert(m.S[id - 1]);
    if (wl) {
      Pat p(pq.p);
      obs::crumb("C05,C13", "locateSubstr", "p=" + obs::esc(pq.p) + " cls=" + qcls);
      IteratorDictID *it = c.d->locateSubstr(p.b, (uint)p.len);
      obs::count("eval.locateSubstr");
      chk_intact(p, "locateSubstr", qcls);
      p.release();
      if (!it) {
        obs::violation("C05", "locateSubstr", "null-iterator", qcls, "p=" + obs::esc(pq.p));
      } else {
        bool over;
        std::vector<size_t> got = drain_ids(c, it, &over);
        bool still = !over && it->hasNext();
        obs::crumb("C05,C13", "locateSubstr", "delete iterator p=" + obs::esc(pq.p));
        delete it;
        if (over) obs::violation("C05,C13", "locateSubstr", "spurious", qcls, "p=" + obs::esc(pq.p) + " iterator yields more than n+2 ids");
        if (still) obs::violation("C13", "locateSubstr", "hasNext-after-end", qcls, "p=" + obs::esc(pq.p));
        std::vector<size_t> sorted = got;
        std::sort(sorted.begin(), sorted.end());
        c.tr("locateSubstr", obs::esc(pq.p, 64) + "=" + ids_str(sorted), obs::esc(pq.p, 64) + "=" + std::to_string(got.size()));
        if (std::adjacent_find(sorted.begin(), sorted.end()) != sorted.end())
          obs::violation("C05,C13", "locateSubstr", "duplicate-id", qcls, "p=" + obs::esc(pq.p) + " got=" + ids_str(got));
        if (c.ordered() && !std::is_sorted(got.begin(), got.end()))
          obs::violation("C13", "locateSubstr", "order", qcls, "p=" + obs::esc(pq.p) + " got=" + ids_str(got));
        if (!over) {
          bool ok;
          if (c.ordered())
            ok = sorted == exp;
          else {
            std::multiset<std::string> gs;
            ok = true;
            for (size_t id : got) {
              std::string e; bool isnull; uint rl;
              if (!do_extract(c, id, &e, &isnull, &rl, "C05", "locateSubstr")) { ok = false; break; }
              gs.insert(e);
            }
            ok = ok && gs == es;
          }
          if (!ok)
            obs::violation("C05", "locateSubstr", got.size() < exp.size() ? "missing" : got.size() > exp.size() ? "spurious" : "wrong-answer", qcls,
                           "p=" + obs::esc(pq.p) + " expected=" + ids_str(exp) + " got=" + ids_str(sorted));
        }
        if (!sampled && exp.size() > 1) {
          sampled = true;
          c.sample(std::string(KIND_NAMES[c.kind]) + "/" + c.state + " locateSubstr(" + obs::esc(pq.p, 40) + ")=" + ids_str(sorted) + " model=" + ids_str(exp));
        }
      }
    }
    if (we) {
      Pat p(pq.p);
      obs::crumb("C05,C13", "extractSubstr", "p=" + obs::esc(pq.p) + " cls=" + qcls);
      IteratorDictString *it = c.d->extractSubstr(p.b, (uint)p.len);
      obs::count("eval.extractSubstr");
      chk_intact(p, "extractSubstr", qcls);
      p.release();
      std::vector<StrItem> got;
      bool over = false, nullstr = false, still = false;
      if (it) {
        got = drain_strs(c, it, &over, &nullstr);
        still = !over && !nullstr && it->hasNext();
        obs::crumb("C05,C13", "extractSubstr", "delete iterator p=" + obs::esc(pq.p));
        delete it;
      }
      if (over) obs::violation("C05,C13", "extractSubstr", "spurious", qcls, "p=" + obs::esc(pq.p) + " iterator yields more than n+2 strings");
      if (nullstr) obs::violation("C05,C13", "extractSubstr", "null-string", qcls, "p=" + obs::esc(pq.p));
      if (still) obs::violation("C13", "extractSubstr", "hasNext-after-end", qcls, "p=" + obs::esc(pq.p));
      c.tr("extractSubstr", obs::esc(pq.p, 64) + "=" + std::to_string(got.size()), obs::esc(pq.p, 64) + "=" + std::to_string(got.size()));
      for (auto &g : got)
        if (g.replen != g.s.size()) {
          obs::violation("C13", "extractSubstr", "length-mismatch", qcls, "p=" + obs::esc(pq.p) + " s=" + obs::esc(g.s) + " reported=" + std::to_string(g.replen));
          break;
        }
      if (!over && !nullstr) {
        std::multiset<std::string> gs;
        for (auto &g : got) gs.insert(g.s);
        if (gs != es)
          obs::violation("C05", "extractSubstr", got.size() < exp.size() ? "missing" : got.size() > exp.size() ? "spurious" : "wrong-answer", qcls,
                         "p=" + obs::esc(pq.p) + " expected " + std::to_string(exp.size()) + " strings, got " + std::to_string(got.size()));
      }
    }
  }
}

// ---- table scan (C13) ------------------------------------------------------------------
static inline void op_table(Ctx &c) {
  if (c.kind == K_XBW || !c.want("extractTable"))
    return;
  const Model &m = c.m;
  obs::crumb("C13", "extractTable", "open");
  IteratorDictString *it = c.d->extractTable();
  obs::count("eval.extractTable");
  if (!it) {
    obs::violation("C13", "extractTable", "null-iterator", "any", "");
    return;
  }
  obs::crumb("C13", "extractTable", "drain");
  bool over, nullstr;
  std::vector<StrItem> got = drain_strs(c, it, &over, &nullstr);
  bool still = !over && !nullstr && (it->hasNext() || it->hasNext());
  obs::crumb("C13", "extractTable", "delete iterator");
  delete it;
  uint64_t h = FNV0;
  for (auto &g : got) h = fnv1a(h, g.s.c_str(), g.s.size() + 1);
  c.tr("table", std::to_string(got.size()) + ":" + std::to_string(h), "");
  {
    std::vector<std::string> srt;
    for (auto &g : got) srt.push_back(g.s);
    std::sort(srt.begin(), srt.end(), ustr_less);
    uint64_t h2 = FNV0;
    for (auto &s : srt) h2 = fnv1a(h2, s.c_str(), s.size() + 1);
    c.tsec["table"].norm = h2;
  }
  if (over) obs::violation("C13", "extractTable", "spurious", "any", "more than n+2 strings");
  if (nullstr) obs::violation("C13", "extractTable", "null-string", "any", "after " + std::to_string(got.size()) + " strings");
  if (still) obs::violation("C13", "extractTable", "hasNext-after-end", "any", "");
  if (!over && !nullstr && got.size() != m.n)
    obs::violation("C13", "extractTable", got.size() < m.n ? "missing" : "spurious", "any", "yielded " + std::to_string(got.size()) + " n=" + std::to_string(m.n));
  size_t lim = std::min(got.size(), m.n);
  bool cmp_extract = c.want("extract");
  size_t step = (lim > 3000 && !c.big) ? lim / 1500 : 1;
  for (size_t k = 0; k < lim; k++) {
    obs::count("eval.table_item");
    if (got[k].replen != got[k].s.size()) {
      obs::violation("C13", "extractTable", "length-mismatch", "any", "k=" + std::to_string(k + 1) + " s=" + obs::esc(got[k].s) + " reported=" + std::to_string(got[k].replen));
      break;
    }
    if (c.ordered() && got[k].s != m.S[k]) {
      obs::violation("C13", "extractTable", "order", "any", "k=" + std::to_string(k + 1) + " expected=" + obs::esc(m.S[k]) + " got=" + obs::esc(got[k].s));
      break;
    }
    if (cmp_extract && (k % step == 0 || k + 2 >= lim)) {
      std::string e; bool isnull; uint rl;
      if (!do_extract(c, k + 1, &e, &isnull, &rl, "C13", "extractTable") || e != got[k].s) {
        obs::violation("C13", "extractTable", "wrong-answer", "any", "k=" + std::to_string(k + 1) + " table=" + obs::esc(got[k].s) + " extract=" + (isnull ? std::string("NULL") : obs::esc(e)));
        break;
      }
    }
  }
  // as a set the table must be S for every kind
  if (!over && !nullstr && got.size() == m.n) {
    std::set<std::string> gs;
    for (auto &g : got) gs.insert(g.s);
    bool ok = gs.size() == m.n;
    if (ok) for (auto &s : gs) if (!m.has(s)) { ok = false; break; }
    if (!ok) obs::violation("C13", "extractTable", "wrong-answer", "any", "table is not the input set");
  }
  c.sample(std::string(KIND_NAMES[c.kind]) + "/" + c.state + " extractTable -> " + std::to_string(got.size()) + " strings, first=" + (got.empty() ? "" : obs::esc(got[0].s, 30)));
}

// ---- unsupported operations (C16) ------------------------------------------------------
static inline void probe_after_unsupported(Ctx &c, const char *what) {
  // the dictionary must remain fully usable
  const Model &m = c.m;
  for (int t = 0; t < 3; t++) {
    size_t i = t == 0 ? 0 : t == 1 ? m.n - 1 : c.rng.below(m.n);
    size_t id = do_locate(c, m.S[i], "C16", "unsupported", what);
    std::string e; bool isnull; uint rl;
    obs::count("eval.after_unsupported");
    if (id < 1 || id > m.n || !do_extract(c, id, &e, &isnull, &rl, "C16", "unsupported") || e != m.S[i])
      obs::violation("C16", "unsupported", "wrong-answer", what, std::string("dictionary unusable after ") + what + ": locate/extract of " + obs::esc(m.S[i]));
  }
}
static inline void op_unsupported(Ctx &c) {
  if (!c.want("unsupported"))
    return;
  const Model &m = c.m;
  bool noPrefix = !has_prefix(c.kind), noSubstr = !has_substr(c), noRank = is_hash(c.kind), noTable = c.kind == K_XBW;
  // the image before any unsupported call; the one written afterwards must be the same bytes ("leaves the dictionary unchanged")
  // (only in half of the cases: a save before the calls could itself hide state that the unsupported calls leave half-initialised)
  bool save_first = c.rng.chance(50);
  std::string img_before;
  if (save_first) {
    obs::crumb("C16,C08", "unsupported", "save before the unsupported calls");
    img_before = save_image(c.d);
  }
  std::vector<std::string> pats = {m.S[0], m.S[m.n - 1].substr(0, 1), m.S[c.rng.below(m.n)], std::string(1, (char)0xFE), m.S[m.n / 2] + (char)2};
  for (auto &q : pats) {
    if (noPrefix) {
      { Pat p(q); obs::crumb("C16", "unsupported", "locatePrefix p=" + obs::esc(q)); IteratorDictID *it = c.d->locatePrefix(p.b, (uint)p.len); obs::count("eval.unsupported");
        if (it) obs::violation("C16", "unsupported", "fabricated", "locatePrefix", "non-null iterator for " + obs::esc(q)); chk_intact(p, "unsupported", "locatePrefix"); }
      { Pat p(q); obs::crumb("C16", "unsupported", "extractPrefix p=" + obs::esc(q)); IteratorDictString *it = c.d->extractPrefix(p.b, (uint)p.len); obs::count("eval.unsupported");
        if (it) obs::violation("C16", "unsupported", "fabricated", "extractPrefix", "non-null iterator for " + obs::esc(q)); }
      probe_after_unsupported(c, "prefix");
    }
    if (noSubstr) {
      { Pat p(q); obs::crumb("C16", "unsupported", "locateSubstr p=" + obs::esc(q)); IteratorDictID *it = c.d->locateSubstr(p.b, (uint)p.len); obs::count("eval.unsupported");
        if (it) obs::violation("C16", "unsupported", "fabricated", "locateSubstr", "non-null iterator for " + obs::esc(q)); chk_intact(p, "unsupported", "locateSubstr"); }
      { Pat p(q); obs::crumb("C16", "unsupported", "extractSubstr p=" + obs::esc(q)); IteratorDictString *it = c.d->extractSubstr(p.b, (uint)p.len); obs::count("eval.unsupported");
        if (it) obs::violation("C16", "unsupported", "fabricated", "extractSubstr", "non-null iterator for " + obs::esc(q)); }
      probe_after_unsupported(c, "substr");
    }
  }
  if (noRank) {
    for (uint rk : {1u, (uint)m.n, (uint)(m.n / 2 + 1), 0u, (uint)m.n + 1}) {
      obs::crumb("C16", "unsupported", "locateRank k=" + std::to_string(rk));
      uint id = c.d->locateRank(rk);
      obs::count("eval.unsupported");
      if (id != 0) obs::violation("C16", "unsupported", "fabricated", "locateRank", "locateRank(" + std::to_string(rk) + ")=" + std::to_string(id));
      uint len = SENT;
      obs::crumb("C16", "unsupported", "extractRank k=" + std::to_string(rk));
      uchar *s = c.d->extractRank(rk, &len);
      obs::count("eval.unsupported");
      if (s) obs::violation("C16", "unsupported", "fabricated", "extractRank", "extractRank(" + std::to_string(rk) + ") non-null");
    }
    probe_after_unsupported(c, "rank");
  }
  c.sample(std::string(KIND_NAMES[c.kind]) + "/" + c.state + " unsupported ops probed: prefix=" + (noPrefix ? "y" : "n") + " substr=" + (noSubstr ? "y" : "n") + " rank=" + (noRank ? "y" : "n") + " table=" + (noTable ? "y" : "n") + " with patterns like " + obs::esc(pats[0], 30));
  if (noTable) {
    obs::crumb("C16", "unsupported", "extractTable");
    IteratorDictString *it = c.d->extractTable();
    obs::count("eval.unsupported");
    if (it) obs::violation("C16", "unsupported", "fabricated", "extractTable", "non-null iterator");
    probe_after_unsupported(c, "table");
  }
  if (noPrefix || noSubstr || noRank || noTable) {
    obs::crumb("C16,C08", "unsupported", "save after the unsupported calls");
    std::string img_after = save_image(c.d);
    obs::count("eval.unsupported_save_after");
    if (save_first && img_after != img_before)
      obs::violation("C16", "unsupported", "state-changed", "save", "the image saved after the unsupported calls differs from the one saved before them (" + std::to_string(img_before.size()) + " vs " + std::to_string(img_after.size()) + " bytes)");
    // and it is a working image
    std::stringstream ss(img_after, std::ios::in | std::ios::binary);
    obs::crumb("C16,C06", "unsupported", "load of the image saved after the unsupported calls");
    StringDictionary *l = load_own(c.kind, ss, c.opt);
    if (!l) obs::violation("C16", "unsupported", "state-changed", "save", "the image saved after the unsupported calls does not load");
    else {
      Pat p(m.S[m.n - 1]);
      uint id = l->locate(p.b, (uint)p.len);
      uint len = SENT;
      uchar *e = id >= 1 && id <= m.n ? l->extract(id, &len) : NULL;
      if (!e || m.S[m.n - 1] != (char *)e)
        obs::violation("C16", "unsupported", "state-changed", "save", "the image saved after the unsupported calls loads but does not return the last member");
      delete[] e;
      obs::crumb("C07", "destroy", "delete dictionary loaded after the unsupported calls");
      delete l;
    }
  }
}
#endif
