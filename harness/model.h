// Reference model of a string dictionary: the sorted set S itself, with naive search.
// Everything here is deliberately simple; the diversity lives in the workloads.
#ifndef VERIF_MODEL_H
#define VERIF_MODEL_H
#include <algorithm>
#include <cstdint>
#include <cstring>
#include <string>
#include <vector>

struct Rng {
  uint64_t s;
  explicit Rng(uint64_t seed) : s(seed ? seed : 0x9E3779B97F4A7C15ull) {}
  uint64_t next() { // splitmix64
    uint64_t z = (s += 0x9E3779B97F4A7C15ull);
    z = (z ^ (z >> 30)) * 0xBF58476D1CE4E5B9ull;
    z = (z ^ (z >> 27)) * 0x94D049BB133111EBull;
    return z ^ (z >> 31);
  }
  uint64_t below(uint64_t n) { return n ? next() % n : 0; }
  bool chance(unsigned pct) { return below(100) < pct; }
};

static inline bool ustr_less(const std::string &a, const std::string &b) {
  size_t m = std::min(a.size(), b.size());
  int c = memcmp(a.data(), b.data(), m);
  if (c != 0)
    return c < 0;
  return a.size() < b.size();
}

struct Model {
  std::vector<std::string> S; // sorted by unsigned bytes, duplicate free, non-empty strings
  size_t n = 0, L = 0;
  bool present[256];

  // returns "" when valid, otherwise the reason the input is outside the stated domain
  std::string init(const std::vector<std::string> &in) {
    S = in;
    n = S.size();
    L = 0;
    memset(present, 0, sizeof(present));
    if (n == 0)
      return "empty set";
    for (size_t i = 0; i < n; i++) {
      if (S[i].empty())
        return "empty string";
      for (unsigned char c : S[i]) {
        if (c < 0x02 || c > 0xFE)
          return "byte outside 0x02..0xFE";
        present[c] = true;
      }
      if (i > 0 && !ustr_less(S[i - 1], S[i]))
        return "not strictly sorted";
      L = std::max(L, S[i].size());
    }
    return "";
  }

  // 1-based rank or 0
  size_t rank(const std::string &q) const {
    auto it = std::lower_bound(S.begin(), S.end(), q, ustr_less);
    if (it != S.end() && *it == q)
      return (it - S.begin()) + 1;
    return 0;
  }
  bool has(const std::string &q) const { return rank(q) != 0; }

  // number of members < q
  size_t lower(const std::string &q) const {
    return std::lower_bound(S.begin(), S.end(), q, ustr_less) - S.begin();
  }

  // members starting with p: 1-based inclusive [lo,hi]; none when lo>hi
  void prefixRange(const std::string &p, size_t *lo, size_t *hi) const {
    size_t a = lower(p); // first >= p
    size_t b = a;
    while (b < n && S[b].size() >= p.size() && memcmp(S[b].data(), p.data(), p.size()) == 0)
      b++;
    *lo = a + 1;
    *hi = b;
  }

  static bool contains(const std::string &s, const std::string &p) {
    if (p.size() > s.size())
      return false;
    return s.find(p) != std::string::npos;
  }
  static size_t occurrences(const std::string &s, const std::string &p) {
    size_t c = 0, pos = 0;
    while ((pos = s.find(p, pos)) != std::string::npos) {
      c++;
      pos++;
    }
    return c;
  }
  std::vector<size_t> substrSet(const std::string &p) const {
    std::vector<size_t> r;
    for (size_t i = 0; i < n; i++)
      if (contains(S[i], p))
        r.push_back(i + 1);
    return r;
  }
};

static inline uint64_t fnv1a(uint64_t h, const void *p, size_t len) {
  const unsigned char *b = (const unsigned char *)p;
  for (size_t i = 0; i < len; i++) {
    h ^= b[i];
    h *= 0x100000001b3ull;
  }
  return h;
}
static const uint64_t FNV0 = 0xcbf29ce484222325ull;

#endif
