int main(){return 0;}
