// Component monitors with plain-definition oracles (C17 codecs/containers, C18 code tables, C19 libcds, C20 Re-Pair).
//   comp_driver --mode vbyte|logseq|dacvls|dacbvls|codes|bitseq|wt|repair --seed S --cases N [--from A --to B] --out FILE
#include "crumb.h"
#include "model.h"
#include <sstream>
#include <fstream>
#include <iostream>
#include <map>
#include <set>
#include <vector>
#include <algorithm>
#include <string>
#include <memory>
#define protected public
#define private public
#include "RePair/RePair.h"
#include "utils/DAC_VLS.h"
#include "utils/DAC_BVLS.h"
#include "HuTucker/HuTucker.h"
#include "Huffman/Huffman.h"
#undef protected
#undef private
#include "utils/LogSequence.h"
#include "utils/VByte.h"
#include "utils/Utils.h"
#include <BitSequence.h>
#include <BitSequenceBuilder.h>
#include <Sequence.h>
#include <WaveletTree.h>
#include <WaveletTreeNoptrs.h>
#include <MapperNone.h>
#include <wt_coder_huff.h>

using namespace cds_static;
static long g_big = 0;
// two-process persistence ("cold load"): with --save-dir the images of every built structure are written to files; with --load-dir the
// process builds nothing, regenerates only the plain model from the seed and checks what it loads from those files - lazily initialised
// static tables that only a constructor fills are then observed
static std::string g_savedir, g_loaddir;
static void write_file(const std::string &p, const std::string &d) { FILE *f = fopen(p.c_str(), "wb"); if (f) { fwrite(d.data(), 1, d.size(), f); fclose(f); } }
static bool read_file(const std::string &p, std::string *d) { FILE *f = fopen(p.c_str(), "rb"); if (!f) return false; char b[65536]; size_t k; d->clear(); while ((k = fread(b, 1, sizeof b, f)) > 0) d->append(b, k); fclose(f); return true; }
#define V(props, op, fclass, qcls, detail) obs::violation(props, op, fclass, qcls, detail)

// ---------------------------------------------------------------------------------------- VByte (C17)
static void mode_vbyte(uint64_t from, uint64_t to, uint64_t seed, long nrandom) {
  uchar buf[16], buf2[16];
  uint64_t tried = 0;
  auto probe = [&](uint32_t v) {
    memset(buf, 0xEE, sizeof buf);
    uint n = VByte::encode(v, buf);
    uint d = 0xDEADBEEF;
    uint m = VByte::decode(&d, buf);
    tried++;
    uint expect = v < (1u << 7) ? 1 : v < (1u << 14) ? 2 : v < (1u << 21) ? 3 : v < (1u << 28) ? 4 : 5;
    if (d != v || n != m || n != expect || buf[n] != 0xEE)
      V("C17", "vbyte", d != v ? "wrong-answer" : "length-mismatch", "VByte", "value " + std::to_string(v) + " encoded in " + std::to_string(n) + " bytes decodes to " + std::to_string(d) + " in " + std::to_string(m) + " bytes");
    memset(buf2, 0xEE, sizeof buf2);
    uint n2 = encodeVB2(v, buf2);
    uint d2 = 0;
    uint m2 = decodeVB2(&d2, buf2);
    if (d2 != v || n2 != m2 || n2 != n || memcmp(buf, buf2, n) != 0)
      V("C17", "vbyte", "wrong-answer", "encodeVB2", "value " + std::to_string(v) + " encodeVB2/decodeVB2 disagree (" + std::to_string(d2) + ", " + std::to_string(n2) + "/" + std::to_string(m2) + " bytes)");
  };
  obs::crumb("C17", "vbyte", "range");
  for (uint64_t v = from; v < to; v++) probe((uint32_t)v);
  for (int s = 7; s <= 28; s += 7)
    for (long d = -3; d <= 3; d++) probe((uint32_t)((1ull << s) + d));
  for (long d = 0; d <= 4; d++) { probe((uint32_t)d); probe((uint32_t)(0xFFFFFFFFu - d)); probe((uint32_t)(0x80000000u + d)); probe((uint32_t)(0x80000000u - d)); }
  Rng r(seed);
  for (long i = 0; i < nrandom; i++) probe((uint32_t)(r.next() >> (r.next() % 33)));
  obs::count("eval.vbyte", (long)tried);
  obs::line("X\tVByte encode->decode identity and byte counts on values " + std::to_string(from) + ".." + std::to_string(to) + ", every power-of-128 boundary +-3, " + std::to_string(nrandom) + " random values");
}

// ---------------------------------------------------------------------------------------- LogSequence (C17)
static void mode_logseq(uint64_t seed, long cases) {
  Rng r(seed);
  for (long cs = 0; cs < cases; cs++) {
    uint w = 1 + (uint)(cs % 64);
    size_t len = 1 + r.below(g_big ? 20000 : 300);
    if (cs % 7 == 0) len = 64 / std::max(1u, std::__gcd(w, 64u)) * (1 + r.below(4)); // fields ending exactly on word boundaries
    uint64_t maxv = w == 64 ? ~0ull : ((1ull << w) - 1);
    obs::crumb("C17", "logseq", "width=" + std::to_string(w) + " len=" + std::to_string(len));
    LogSequence ls(w, len);
    std::vector<uint64_t> shadow(len, 0);
    obs::count("cls.width_" + std::string(w == 64 ? "64" : w > 32 ? "33_63" : w == 32 ? "32" : "1_31"));
    long writes = (long)std::min<size_t>(len * 3, 3000);
    bool bad = false;
    for (long k = 0; k < writes && !bad; k++) {
      size_t pos = r.below(len);
      uint64_t val = r.chance(10) ? maxv : r.chance(10) ? 0 : (r.next() & maxv);
      ls.setField(pos, val);
      shadow[pos] = val;
      obs::count("eval.logseq_write");
      for (long d = -2; d <= 2; d++) { // the written field and its neighbours
        long q = (long)pos + d;
        if (q < 0 || (size_t)q >= len) continue;
        uint64_t got = ls.getField((size_t)q);
        if (got != shadow[q]) {
          V("C17", "logseq", d == 0 ? "wrong-answer" : "neighbour-disturbed", "width_" + std::to_string(w), "width " + std::to_string(w) + " len " + std::to_string(len) + ": after setField(" + std::to_string(pos) + "," + std::to_string(val) + ") getField(" + std::to_string(q) + ")=" + std::to_string(got) + " expected " + std::to_string(shadow[q]));
          bad = true;
          break;
        }
      }
    }
    if (bad) continue;
    for (size_t i = 0; i < len; i++)
      if (ls.getField(i) != shadow[i]) { V("C17", "logseq", "wrong-answer", "width_" + std::to_string(w), "full re-read: position " + std::to_string(i)); bad = true; break; }
    obs::count("eval.logseq_reread", (long)len);
    // vector constructor
    if (w <= 63 && !bad) {
      std::vector<size_t> v(shadow.begin(), shadow.end());
      LogSequence lv(&v, w);
      for (size_t i = 0; i < len; i++)
        if (lv.getField(i) != shadow[i]) { V("C17", "logseq", "wrong-answer", "vector-ctor", "width " + std::to_string(w) + " position " + std::to_string(i)); break; }
    }
    // save / load with exact consumption
    std::stringstream ss(std::ios::in | std::ios::out | std::ios::binary);
    ls.save(ss);
    std::string img = ss.str();
    std::string img2;
    { std::stringstream s2(std::ios::in | std::ios::out | std::ios::binary); ls.save(s2); img2 = s2.str(); }
    if (img != img2) V("C17", "logseq", "nondeterministic", "save", "two saves differ");
    std::stringstream in(img + std::string("CANARY!!"), std::ios::in | std::ios::binary);
    LogSequence ld(in);
    obs::count("eval.logseq_saveload");
    if ((size_t)in.tellg() != img.size()) V("C17", "logseq", "leftover-bytes", "load", "load consumed " + std::to_string((long)in.tellg()) + " of " + std::to_string(img.size()));
    if (ld.getNumberOfElements() != len) V("C17", "logseq", "wrong-answer", "load", "numentries " + std::to_string(ld.getNumberOfElements()));
    else
      for (size_t i = 0; i < len; i++)
        if (ld.getField(i) != shadow[i]) { V("C17", "logseq", "wrong-answer", "load", "width " + std::to_string(w) + " position " + std::to_string(i) + " after save/load"); break; }
    if (cs < 3) obs::line("X\tLogSequence width " + std::to_string(w) + ", " + std::to_string(len) + " fields, " + std::to_string(writes) + " random writes each re-read with its 4 neighbours, then save/load");
  }
}

// ---------------------------------------------------------------------------------------- DAC_VLS / DAC_BVLS (C17)
static std::vector<std::vector<uint>> gen_seqs(Rng &r, uint *bitsw, uint *maxlen) {
  size_t n = 1 + r.below(g_big ? 3000 : 120);
  uint w = 1 + (uint)r.below(32);
  uint shape = (uint)r.below(6);
  uint ml = shape == 0 ? 1 : 1 + (uint)r.below(shape == 1 ? 2 : 12);
  std::vector<std::vector<uint>> s(n);
  uint real_max = 0;
  for (size_t i = 0; i < n; i++) {
    uint l = 1 + (uint)r.below(ml);
    if (shape == 3 && i + 1 == n) l = 1;           // a one-symbol last sequence
    if (shape == 4 && i == n / 2) l = ml;           // one maximal sequence
    if (shape == 5 && i + 1 == n) l = ml;           // maximal last sequence
    for (uint k = 0; k < l; k++) s[i].push_back((uint)(r.next() & (w == 32 ? 0xFFFFFFFFu : ((1u << w) - 1))));
    real_max = std::max<uint>(real_max, l);
  }
  *bitsw = w;
  *maxlen = real_max;
  return s;
}

static void mode_dacvls(uint64_t seed, long cases) {
  Rng r(seed);
  for (long cs = 0; cs < cases; cs++) {
    uint w, ml;
    std::vector<std::vector<uint>> S = gen_seqs(r, &w, &ml);
    if (w > 31) w = 31; // symbols are stored in an int list: keep them non-negative
    for (auto &q : S) for (auto &x : q) x &= ((1u << w) - 1);
    // documented layout: seq... -1 seq... -2 ...; l_Length = size of the array
    std::vector<int> list;
    for (size_t i = 0; i < S.size(); i++) {
      for (uint x : S[i]) list.push_back((int)x);
      list.push_back(-(int)(i + 1));
    }
    obs::crumb("C17", "dacvls", "n=" + std::to_string(S.size()) + " width=" + std::to_string(w) + " maxlen=" + std::to_string(ml));
    if (ml == 1) obs::count("cls.all_len1");
    if (S.back().size() == 1) obs::count("cls.last_seq_single_symbol");
    if (S.back().size() == ml) obs::count("cls.last_seq_maximal");
    DAC_VLS *d = new DAC_VLS(list.data(), (uint)list.size(), w, ml);
    auto check = [&](DAC_VLS *x, const char *what) {
      if (x->getListLength() != S.size()) { V("C17", "dacvls", "wrong-answer", what, "list length " + std::to_string(x->getListLength()) + " expected " + std::to_string(S.size())); return; }
      // access(pos): pos is the 1-based index in level 0 == index of the sequence
      for (size_t i = 0; i < S.size(); i++) {
        uint *seq = NULL;
        uint l = x->access((uint)(i + 1), &seq);
        obs::count("eval.dacvls_access");
        bool ok = l == S[i].size();
        for (uint k = 0; ok && k < l; k++) ok = seq[k] == S[i][k];
        delete[] seq;
        if (!ok) { V("C17", "dacvls", "wrong-answer", what, "access(" + std::to_string(i + 1) + ") of " + std::to_string(S.size()) + " sequences: length " + std::to_string(l) + " expected " + std::to_string(S[i].size())); return; }
        // access_next walk
        uint pos = (uint)(i + 1), lev = 0;
        std::vector<uint> got;
        while (pos != (uint)-1 && got.size() <= ml + 1) { got.push_back(x->access_next(lev, &pos)); lev++; }
        obs::count("eval.dacvls_walk");
        if (got != S[i]) { V("C17", "dacvls", "wrong-answer", what, "access_next walk of sequence " + std::to_string(i + 1) + " yields " + std::to_string(got.size()) + " symbols, expected " + std::to_string(S[i].size())); return; }
      }
    };
    check(d, "built");
    std::stringstream ss(std::ios::in | std::ios::out | std::ios::binary);
    d->save(ss);
    std::string img = ss.str();
    std::stringstream in(img + "CANARY!!", std::ios::in | std::ios::binary);
    obs::crumb("C17", "dacvls", "load");
    DAC_VLS *l = DAC_VLS::load(in);
    if ((size_t)in.tellg() != img.size()) V("C17", "dacvls", "leftover-bytes", "load", "load consumed " + std::to_string((long)in.tellg()) + " of " + std::to_string(img.size()));
    check(l, "loaded");
    std::stringstream s3(std::ios::in | std::ios::out | std::ios::binary);
    l->save(s3);
    if (s3.str() != img) V("C17", "dacvls", "nondeterministic", "resave", "image of the loaded DAC differs from the original");
    delete l;
    delete d;
    if (cs < 3) obs::line("X\tDAC_VLS over " + std::to_string(S.size()) + " sequences (max length " + std::to_string(ml) + ", " + std::to_string(w) + "-bit symbols): access + access_next walk of every sequence, built and reloaded");
  }
}

static void mode_dacbvls(uint64_t seed, long cases) {
  Rng r(seed);
  for (long cs = 0; cs < cases; cs++) {
    uint w, ml;
    std::vector<std::vector<uint>> S = gen_seqs(r, &w, &ml);
    for (auto &q : S) for (auto &x : q) x &= 0xFF; // byte symbols
    // level-wise layout as StringDictionaryHASHUFFDAC's constructor produces it
    uint nLevels = ml;
    std::vector<uint> levelSize(nLevels, 0);
    uint tam = 0;
    for (auto &q : S) { for (uint k = 0; k < q.size(); k++) levelSize[k]++; tam += q.size(); }
    std::vector<uint> levelsIndex(nLevels), x(nLevels);
    x[0] = 0;
    for (uint i = 1; i < nLevels; i++) x[i] = x[i - 1] + levelSize[i - 1];
    for (uint i = 0; i < nLevels; i++) levelsIndex[i] = x[i];
    std::vector<uint> rankLevels(nLevels + 1, 0);
    uchar *seq = new uchar[tam];
    BitString *bs = new BitString(tam);
    for (auto &q : S)
      for (uint i = 0; i < q.size(); i++) {
        seq[x[i]] = (uchar)q[i];
        if (i + 1 < q.size()) { bs->setBit(x[i], true); rankLevels[i]++; } else bs->setBit(x[i], false);
        x[i]++;
      }
    obs::crumb("C17", "dacbvls", "n=" + std::to_string(S.size()) + " maxlen=" + std::to_string(ml));
    DAC_BVLS *d = new DAC_BVLS(tam, nLevels, &levelsIndex, &rankLevels, seq, bs);
    delete bs;
    auto check = [&](DAC_BVLS *z, const char *what) {
      for (size_t i = 0; i < S.size(); i++) {
        uint *sq = NULL;
        uint l = z->access((uint)(i + 1), &sq);
        obs::count("eval.dacbvls_access");
        bool ok = l == S[i].size();
        for (uint k = 0; ok && k < l; k++) ok = sq[k] == S[i][k];
        delete[] sq;
        if (!ok) { V("C17", "dacbvls", "wrong-answer", what, "access(" + std::to_string(i + 1) + "): length " + std::to_string(l) + " expected " + std::to_string(S[i].size())); return; }
        uint pos = (uint)(i + 1), lev = 0;
        std::vector<uint> got;
        while (pos != (uint)-1 && got.size() <= ml + 1) { got.push_back(z->access_next(lev, &pos)); lev++; }
        if (got != S[i]) { V("C17", "dacbvls", "wrong-answer", what, "access_next walk of sequence " + std::to_string(i + 1)); return; }
      }
    };
    check(d, "built");
    std::stringstream ss(std::ios::in | std::ios::out | std::ios::binary);
    d->save(ss);
    std::string img = ss.str();
    std::stringstream in(img + "CANARY!!", std::ios::in | std::ios::binary);
    DAC_BVLS *l = DAC_BVLS::load(in);
    if ((size_t)in.tellg() != img.size()) V("C17", "dacbvls", "leftover-bytes", "load", "load consumed " + std::to_string((long)in.tellg()) + " of " + std::to_string(img.size()));
    check(l, "loaded");
    std::stringstream s3(std::ios::in | std::ios::out | std::ios::binary);
    l->save(s3);
    if (s3.str() != img) V("C17", "dacbvls", "nondeterministic", "resave", "image of the loaded DAC differs from the original");
    delete l;
    delete d;
    if (cs < 2) obs::line("X\tDAC_BVLS over " + std::to_string(S.size()) + " byte sequences (max length " + std::to_string(ml) + "), level-wise layout as HASHUFFDAC builds it");
  }
}

// ---------------------------------------------------------------------------------------- code tables (C18)
static std::vector<uint> gen_freqs(Rng &r, std::string *shape) {
  std::vector<uint> f(256, 1);
  int k = (int)r.below(9);
  static const char *names[] = {"uniform", "zipf", "geometric", "fibonacci", "dominant", "random_floor", "two_level", "text_like", "few_symbols"};
  *shape = names[k];
  switch (k) {
  case 0: { uint v = 1 + (uint)r.below(1000); for (auto &x : f) x = v; break; }
  case 1: { uint c = 1000 + (uint)r.below(100000); std::vector<int> perm(256); for (int i = 0; i < 256; i++) perm[i] = i; for (int i = 255; i > 0; i--) std::swap(perm[i], perm[r.below(i + 1)]); for (int i = 0; i < 256; i++) f[perm[i]] = 1 + c / (i + 1); break; }
  case 2: { int m = 10 + (int)r.below(20); std::vector<int> perm(256); for (int i = 0; i < 256; i++) perm[i] = i; for (int i = 255; i > 0; i--) std::swap(perm[i], perm[r.below(i + 1)]); for (int i = 0; i < m; i++) f[perm[i]] = 1u << (m - i); break; }
  case 3: { int m = 12 + (int)r.below(18); uint a = 1, b = 1; int st = (int)r.below(256 - m); for (int i = 0; i < m; i++) { f[st + i] = a + 1; uint t = a + b; a = b; b = t; } break; }
  case 4: { f[r.below(256)] = 1000000 + (uint)r.below(100000000); for (int i = 0; i < 10; i++) f[r.below(256)] += (uint)r.below(50); break; }
  case 5: { for (auto &x : f) x = 1 + (uint)(r.chance(60) ? 0 : r.below(5000)); break; }
  case 6: { for (int i = 0; i < 256; i++) f[i] = (i % 2) ? 1000 : 1; break; }
  case 7: { for (int i = 'a'; i <= 'z'; i++) f[i] = 1 + (uint)r.below(10000); f[0] = 1 + (uint)r.below(3000); f[' '] = 5000; f[0x80] = 1 + (uint)r.below(400); f[0x81] = 1 + (uint)r.below(400); break; }
  case 8: { int m = 2 + (int)r.below(4); for (int i = 0; i < m; i++) f[r.below(256)] = 10 + (uint)r.below(100000); break; }
  }
  return f;
}

static void check_code(const std::vector<uint> &f, Codeword *cw, const char *which, const std::string &shape, bool alphabetic) {
  // prefix-free + complete (Kraft sum == 1) + (Hu-Tucker) alphabetic: left-aligned codewords strictly increase with the symbol
  long double kraft = 0;
  uint maxbits = 0;
  bool ok_len = true;
  for (int i = 0; i < 256; i++) {
    uint b = cw[i].bits;
    if (b == 0 || b > 32) { ok_len = false; continue; }
    maxbits = std::max(maxbits, b);
    kraft += 1.0L / (long double)(1ull << b);
  }
  obs::count("eval.code_table");
  if (maxbits > 16) obs::count("cls.codeword_gt16");
  if (!ok_len) {
    // codewords are limited to 32 bits by the representation: vectors needing more are skipped and counted
    uint64_t total = 0; for (uint x : f) total += x;
    bool needs_more = false; // a weight ratio above 2^32 would be needed for a >32 bit optimal code; otherwise an empty/overlong code is a defect
    (void)total;
    for (int i = 0; i < 256; i++) if (cw[i].bits > 32) needs_more = true;
    if (needs_more) { obs::count("skipped.codeword_gt32"); return; }
    V("C18", which, "empty-codeword", shape, std::string(which) + ": a symbol has an empty codeword for a " + shape + " frequency vector");
    return;
  }
  if (kraft > 1.0L + 1e-12L || kraft < 1.0L - 1e-12L)
    V("C18", which, kraft > 1 ? "not-prefix-free" : "incomplete", shape, std::string(which) + ": Kraft sum " + std::to_string((double)kraft) + " for a " + shape + " frequency vector");
  // explicit prefix test on left-aligned codes
  std::vector<std::pair<uint64_t, uint>> v;
  for (int i = 0; i < 256; i++) v.push_back({(uint64_t)cw[i].codeword << (32 - cw[i].bits), cw[i].bits});
  std::vector<std::pair<uint64_t, uint>> s = v;
  std::sort(s.begin(), s.end());
  for (size_t i = 0; i + 1 < s.size(); i++) {
    uint b = s[i].second;
    uint64_t mask = b == 32 ? 0xFFFFFFFFull : (~((1ull << (32 - b)) - 1)) & 0xFFFFFFFFull;
    if ((s[i + 1].first & mask) == s[i].first) { V("C18", which, "not-prefix-free", shape, std::string(which) + ": a codeword is a prefix of another for a " + shape + " frequency vector"); break; }
  }
  for (int i = 0; i < 256; i++)
    if (cw[i].bits < 32 && (cw[i].codeword >> cw[i].bits) != 0) { V("C18", which, "wrong-answer", shape, std::string(which) + ": codeword of symbol " + std::to_string(i) + " wider than its length"); break; }
  if (alphabetic)
    for (int i = 0; i + 1 < 256; i++)
      if (!(v[i].first < v[i + 1].first)) { V("C18,C03", which, "not-alphabetic", shape, std::string(which) + ": codeword of symbol " + std::to_string(i) + " does not precede the one of symbol " + std::to_string(i + 1) + " (" + shape + " frequencies)"); break; }
}

static void mode_codes(uint64_t seed, long cases) {
  Rng r(seed);
  for (long cs = 0; cs < cases; cs++) {
    std::string shape;
    std::vector<uint> f = gen_freqs(r, &shape);
    obs::count("cls.shape_" + shape);
    {
      obs::crumb("C18", "hutucker", shape);
      std::vector<uint> g = f;
      HuTucker *ht = new HuTucker(g.data());
      Codeword *cw = ht->obtainCodewords();
      check_code(f, cw, "hutucker", shape, true);
      delete[] cw;
      delete ht;
    }
    {
      obs::crumb("C18", "huffman", shape);
      std::vector<uint> g = f;
      Huffman *hf = new Huffman(g.data());
      Codeword *cw = hf->obtainCodewords();
      check_code(f, cw, "huffman", shape, false);
      delete[] cw;
      delete hf;
    }
    if (cs < 3) obs::line("X\tHu-Tucker and Huffman code tables for a " + shape + " frequency vector: prefix-free, Kraft sum 1, Hu-Tucker alphabetic");
  }
}

// ---------------------------------------------------------------------------------------- bit sequences (C19)
struct BitModel {
  std::vector<bool> b;
  std::vector<size_t> pre1; // ones in [0..i]
  std::vector<size_t> ones, zeros;
  void build() {
    pre1.assign(b.size(), 0);
    ones.clear(); zeros.clear();
    size_t c = 0;
    for (size_t i = 0; i < b.size(); i++) { if (b[i]) { c++; ones.push_back(i); } else zeros.push_back(i); pre1[i] = c; }
  }
};

static std::vector<bool> gen_bits(Rng &r, std::string *shape) {
  size_t n;
  int k = (int)r.below(11);
  static const char *names[] = {"all0", "all1", "single1", "single0", "alternating", "runs", "random_sparse", "random_dense", "random_half", "block_uniform", "mixed_density"};
  *shape = names[k];
  if (k == 10) {
    // long vector made of dense stretches (thousands of ones within a few thousand bits) and very sparse ones (>= 1024 ones spread over
    // more than 2^16 bits) in random order: select directories switch representation between blocks
    std::vector<bool> b;
    size_t segs = 2 + r.below(3);
    bool sparse = r.chance(50);
    for (size_t sg = 0; sg < segs; sg++, sparse = !sparse) {
      size_t ones = 1100 + r.below(2500);
      size_t gap = sparse ? 70 + r.below(60) : 1 + r.below(6);
      for (size_t o = 0; o < ones; o++) {
        size_t z = gap == 1 ? 0 : r.below(2 * gap - 1);
        b.insert(b.end(), z, false);
        b.push_back(true);
      }
    }
    if (r.chance(50)) b.insert(b.end(), r.below(100), false);
    return b;
  }
  size_t lens[] = {1, 2, 14, 15, 16, 29, 30, 31, 32, 33, 45, 60, 63, 64, 65, 127, 128, 129, 255, 256, 300, 480, 481, 1000, 1920, 2049};
  n = r.chance(70) ? lens[r.below(sizeof(lens) / sizeof(lens[0]))] : 1 + r.below(g_big ? 200000 : 3000);
  std::vector<bool> b(n, false);
  switch (k) {
  case 0: break;
  case 1: b.assign(n, true); break;
  case 2: b[r.below(n)] = true; break;
  case 3: b.assign(n, true); b[r.below(n)] = false; break;
  case 4: for (size_t i = 0; i < n; i++) b[i] = (i & 1) != 0; break;
  case 5: { bool v = r.chance(50); size_t i = 0; while (i < n) { size_t l = 1 + r.below(70); if (r.chance(30)) l = 15 * (1 + r.below(4)); for (size_t j = 0; j < l && i < n; j++, i++) b[i] = v; v = !v; } break; }
  case 6: for (size_t i = 0; i < n; i++) b[i] = r.below(100) < 2; break;
  case 7: for (size_t i = 0; i < n; i++) b[i] = r.below(100) < 97; break;
  case 8: for (size_t i = 0; i < n; i++) b[i] = r.chance(50); break;
  case 9: { for (size_t blk = 0; blk * 15 < n; blk++) { int t = (int)r.below(3); for (size_t j = blk * 15; j < (blk + 1) * 15 && j < n; j++) b[j] = t == 0 ? false : t == 1 ? true : r.chance(50); } break; }
  }
  return b;
}

static void check_bitseq(BitSequence *bs, const BitModel &m, const std::string &what, const std::string &shape, bool do_select) {
  size_t n = m.b.size();
  if (bs->getLength() != n) { V("C19", "bitseq", "wrong-answer", what, what + " getLength " + std::to_string(bs->getLength()) + " expected " + std::to_string(n)); return; }
  if (bs->countOnes() != m.ones.size()) { V("C19", "bitseq", "wrong-answer", what, what + " countOnes " + std::to_string(bs->countOnes()) + " expected " + std::to_string(m.ones.size()) + " (" + shape + ", n=" + std::to_string(n) + ")"); return; }
  size_t step = n > 5000 ? n / 2500 : 1;
  for (size_t i = 0; i < n; i += (i + step < n || i + 1 == n) ? step : (n - 1 - i ? n - 1 - i : 1)) {
    obs::count("eval.bitseq_query", 3);
    bool a = bs->access(i);
    size_t r1 = bs->rank1(i), r0 = bs->rank0(i);
    if (a != m.b[i] || r1 != m.pre1[i] || r0 != i + 1 - m.pre1[i]) {
      V("C19", "bitseq", "wrong-answer", what, what + " (" + shape + ", n=" + std::to_string(n) + ") at i=" + std::to_string(i) + ": access=" + std::to_string(a) + " rank1=" + std::to_string(r1) + " rank0=" + std::to_string(r0) + " expected " + std::to_string(m.b[i]) + "/" + std::to_string(m.pre1[i]) + "/" + std::to_string(i + 1 - m.pre1[i]));
      return;
    }
    if (i + 1 == n) break;
  }
  if (!do_select) return;
  size_t s1 = m.ones.size() > 3000 ? m.ones.size() / 1500 : 1;
  for (size_t j = 1; j <= m.ones.size(); j += s1) {
    obs::count("eval.bitseq_query");
    size_t p = bs->select1(j);
    if (p != m.ones[j - 1]) { V("C19", "bitseq", "wrong-answer", what, what + " (" + shape + ", n=" + std::to_string(n) + ") select1(" + std::to_string(j) + ")=" + std::to_string(p) + " expected " + std::to_string(m.ones[j - 1])); return; }
  }
  size_t s0 = m.zeros.size() > 3000 ? m.zeros.size() / 1500 : 1;
  for (size_t j = 1; j <= m.zeros.size(); j += s0) {
    obs::count("eval.bitseq_query");
    size_t p = bs->select0(j);
    if (p != m.zeros[j - 1]) { V("C19", "bitseq", "wrong-answer", what, what + " (" + shape + ", n=" + std::to_string(n) + ") select0(" + std::to_string(j) + ")=" + std::to_string(p) + " expected " + std::to_string(m.zeros[j - 1])); return; }
  }
}

static bool has_variant(const std::string &list, const std::string &v) { return ("," + list + ",").find("," + v + ",") != std::string::npos; }

static void mode_bitseq(uint64_t seed, long cases, const std::string &variants) {
  bool cold = !g_loaddir.empty();
  for (long cs = 0; cs < cases; cs++) {
    Rng r(seed * 1000003ull + (uint64_t)cs * 7919ull + 1);   // one generator per case: build-only, load-only and ordinary runs see the same vectors
    std::string shape;
    BitModel m;
    m.b = gen_bits(r, &shape);
    m.build();
    size_t n = m.b.size();
    obs::count("cls.bitvec_" + shape);
    if (n % 32 == 0) obs::count("cls.bitvec_len_mod32_0");
    if (n % 15 == 0) obs::count("cls.bitvec_len_mod15_0");
    if (cold) obs::count("cls.cold_load");
    uint *raw = new uint[n / 32 + 2]();
    for (size_t i = 0; i < n; i++) if (m.b[i]) raw[i / 32] |= 1u << (i % 32);
    struct Var { std::string name; BitSequence *bs; };
    std::vector<Var> vars;
    uint rg = (uint)std::vector<uint>{1, 2, 3, 4, 8, 20, 32, 40}[r.below(8)];
    uint rr = (uint)std::vector<uint>{1, 2, 3, 5, 7, 8, 16, 32, 64, 128}[r.below(10)];
    if (has_variant(variants, "rg")) { obs::crumb("C19", "bitseq", "build RG factor " + std::to_string(rg) + " " + shape + " n=" + std::to_string(n)); vars.push_back({"RG(" + std::to_string(rg) + ")", cold ? NULL : new BitSequenceRG(raw, n, rg)}); }
    if (has_variant(variants, "rrr")) { obs::crumb("C19", "bitseq", "build RRR rate " + std::to_string(rr) + " " + shape + " n=" + std::to_string(n)); vars.push_back({"RRR(" + std::to_string(rr) + ")", cold ? NULL : new BitSequenceRRR(raw, n, rr)}); }
    if (has_variant(variants, "sdarray") && !m.ones.empty()) { obs::crumb("C19", "bitseq", "build SDArray " + shape + " n=" + std::to_string(n)); vars.push_back({"SDArray", cold ? NULL : new BitSequenceSDArray(raw, n)}); }
    if (has_variant(variants, "darray") && !m.ones.empty()) { obs::crumb("C19", "bitseq", "build DArray " + shape + " n=" + std::to_string(n)); vars.push_back({"DArray", cold ? NULL : new BitSequenceDArray(raw, n)}); }
    size_t vi = 0;
    for (auto &v : vars) {
      std::string fn = (cold ? g_loaddir : g_savedir) + "/b" + std::to_string(cs) + "_" + std::to_string(vi++) + ".img";
      std::string img;
      if (!cold) {
        obs::crumb("C19", "bitseq", "query " + v.name + " " + shape + " n=" + std::to_string(n));
        check_bitseq(v.bs, m, v.name, shape, true);
        std::stringstream ss(std::ios::in | std::ios::out | std::ios::binary);
        obs::crumb("C19", "bitseq", "save/load " + v.name + " " + shape + " n=" + std::to_string(n));
        v.bs->save(ss);
        img = ss.str();
        if (!g_savedir.empty()) write_file(fn, img);
      } else {
        obs::crumb("C19", "bitseq", "load in a process that never built one: " + v.name + " " + shape + " n=" + std::to_string(n));
        if (!read_file(fn, &img)) { obs::line("E\tmissing-image\t" + fn); continue; }
      }
      std::stringstream in(img + "CANARY!!", std::ios::in | std::ios::binary);
      BitSequence *l = BitSequence::load(in);
      if (!l) V("C19", "bitseq", "load-failed", v.name, "BitSequence::load returned NULL for " + v.name);
      else {
        if ((size_t)in.tellg() != img.size()) V("C19", "bitseq", "leftover-bytes", v.name, v.name + " load consumed " + std::to_string((long)in.tellg()) + " of " + std::to_string(img.size()));
        check_bitseq(l, m, v.name + (cold ? "/loaded-cold" : "/loaded"), shape, true);
        delete l;
      }
      delete v.bs;
    }
    delete[] raw;
    if (cs < 3) obs::line("X\tbit vector " + shape + " of " + std::to_string(n) + " bits (" + std::to_string(m.ones.size()) + " ones): access/rank0/rank1 at every position, select0/select1 for every j, on " + std::to_string(vars.size()) + " variants, " + (cold ? "loaded in a process that built nothing" : "built and reloaded"));
  }
}

// ---------------------------------------------------------------------------------------- wavelet trees (C19)
static void mode_wt(uint64_t seed, long cases) {
  bool cold = !g_loaddir.empty();
  for (long cs = 0; cs < cases; cs++) {
    Rng r(seed * 1000003ull + (uint64_t)cs * 7919ull + 2);
    Rng rq(seed * 31ull + (uint64_t)cs + 77);
    if (cold) obs::count("cls.cold_load");
    size_t n = 1 + r.below(g_big ? 50000 : 1500);
    uint sigma = (uint)std::vector<uint>{1, 2, 3, 4, 16, 64, 200, 256}[r.below(8)];
    bool skew = r.chance(50);
    std::vector<uint> seq(n);
    uint base = sigma < 200 ? (uint)r.below(256 - sigma) : 0;
    for (size_t i = 0; i < n; i++) {
      uint x = skew ? (uint)std::min<uint64_t>(sigma - 1, (uint64_t)(r.below(sigma) * r.below(sigma) / std::max(1u, sigma))) : (uint)r.below(sigma);
      seq[i] = base + x;
    }
    std::map<uint, std::vector<size_t>> occ;
    for (size_t i = 0; i < n; i++) occ[seq[i]].push_back(i);
    obs::count("cls.sigma_" + std::to_string(sigma));
    bool rrr = r.chance(50);
    uint par = rrr ? (uint)std::vector<uint>{8, 16, 32, 128}[r.below(4)] : (uint)std::vector<uint>{2, 4, 20}[r.below(3)];
    auto check = [&](Sequence *s, const std::string &what) {
      size_t step = n > 4000 ? n / 2000 : 1;
      for (size_t i = 0; i < n; i += step) {
        obs::count("eval.wt_query", 2);
        uint a = s->access(i);
        if (a != seq[i]) { V("C19", "wt", "wrong-answer", what, what + " access(" + std::to_string(i) + ")=" + std::to_string(a) + " expected " + std::to_string(seq[i]) + " (n=" + std::to_string(n) + " sigma=" + std::to_string(sigma) + ")"); return; }
        uint c = seq[rq.below(n)];
        const std::vector<size_t> &o = occ[c];
        size_t expect = std::upper_bound(o.begin(), o.end(), i) - o.begin();
        size_t got = s->rank(c, i);
        if (got != expect) { V("C19", "wt", "wrong-answer", what, what + " rank(" + std::to_string(c) + "," + std::to_string(i) + ")=" + std::to_string(got) + " expected " + std::to_string(expect)); return; }
      }
      for (auto &kv : occ) {
        size_t st = kv.second.size() > 500 ? kv.second.size() / 250 : 1;
        for (size_t j = 1; j <= kv.second.size(); j += st) {
          obs::count("eval.wt_query");
          size_t p = s->select(kv.first, j);
          if (p != kv.second[j - 1]) { V("C19", "wt", "wrong-answer", what, what + " select(" + std::to_string(kv.first) + "," + std::to_string(j) + ")=" + std::to_string(p) + " expected " + std::to_string(kv.second[j - 1])); return; }
        }
      }
    };
    auto reload = [&](Sequence *built, const std::string &what, int idx) {
      std::string fn = (cold ? g_loaddir : g_savedir) + "/w" + std::to_string(cs) + "_" + std::to_string(idx) + ".img";
      std::string img;
      if (!cold) {
        std::stringstream ss(std::ios::in | std::ios::out | std::ios::binary);
        built->save(ss);
        img = ss.str();
        if (!g_savedir.empty()) write_file(fn, img);
      } else {
        obs::crumb("C19", "wt", "load in a process that never built one: " + what + " n=" + std::to_string(n) + " sigma=" + std::to_string(sigma));
        if (!read_file(fn, &img)) { obs::line("E\tmissing-image\t" + fn); return; }
      }
      std::stringstream in(img + "CANARY!!", std::ios::in | std::ios::binary);
      Sequence *l = Sequence::load(in);
      if (!l) V("C19", "wt", "load-failed", what, "Sequence::load returned NULL");
      else {
        if (idx == 0 && (size_t)in.tellg() != img.size()) V("C19", "wt", "leftover-bytes", what, "load consumed " + std::to_string((long)in.tellg()) + " of " + std::to_string(img.size()));
        check(l, what + (cold ? "/loaded-cold" : "/loaded"));
        delete l;
      }
    };
    if (cold) {
      reload(NULL, "WaveletTree", 0);
      reload(NULL, "WaveletTreeNoptrs", 1);
    } else {
      {
        // the configuration FMINDEX and XBW use: Huffman shape, identity mapper
        std::vector<uint> cp = seq;
        Mapper *am = new MapperNone();
        am->use();
        wt_coder *wc = new wt_coder_huff(cp.data(), n, am);
        wc->use();
        BitSequenceBuilder *bsb = rrr ? (BitSequenceBuilder *)new BitSequenceBuilderRRR(par) : (BitSequenceBuilder *)new BitSequenceBuilderRG(par);
        bsb->use();
        obs::crumb("C19", "wt", "WaveletTree n=" + std::to_string(n) + " sigma=" + std::to_string(sigma) + (rrr ? " RRR " : " RG ") + std::to_string(par));
        WaveletTree *wt = new WaveletTree(cp.data(), n, wc, bsb, am);
        check(wt, "WaveletTree");
        reload(wt, "WaveletTree", 0);
        delete wt;
        wc->unuse();
        bsb->unuse();
        am->unuse();
      }
      {
        std::vector<uint> cp = seq;
        Mapper *am = new MapperNone();
        am->use();
        BitSequenceBuilder *bsb = rrr ? (BitSequenceBuilder *)new BitSequenceBuilderRRR(par) : (BitSequenceBuilder *)new BitSequenceBuilderRG(par);
        bsb->use();
        obs::crumb("C19", "wt", "WaveletTreeNoptrs n=" + std::to_string(n) + " sigma=" + std::to_string(sigma));
        WaveletTreeNoptrs *wt = new WaveletTreeNoptrs(cp.data(), n, bsb, am);
        check(wt, "WaveletTreeNoptrs");
        reload(wt, "WaveletTreeNoptrs", 1);
        delete wt;
        bsb->unuse();
        am->unuse();
      }
    }
    if (cs < 3) obs::line("X\tsequence of " + std::to_string(n) + " symbols over an alphabet of " + std::to_string(sigma) + (skew ? " (skewed)" : " (uniform)") + ": access/rank/select on WaveletTree (Huffman shape) and WaveletTreeNoptrs, built and reloaded");
  }
}

// ---------------------------------------------------------------------------------------- Re-Pair (C20)
static std::vector<int> gen_repair_input(Rng &r, std::string *shape) {
  int k = (int)r.below(10);
  static const char *names[] = {"no_repeated_pair", "single_string", "run", "abab", "fibonacci", "copies", "near_identical", "random_small_alphabet", "random_text", "many_short_small_alphabet"};
  *shape = names[k];
  std::vector<std::string> strs;
  size_t budget = g_big ? 200000 : 4000;
  auto rs = [&](const std::string &alpha, size_t lo, size_t hi) { std::string s; size_t l = lo + r.below(hi - lo + 1); for (size_t i = 0; i < l; i++) s += alpha[r.below(alpha.size())]; return s; };
  switch (k) {
  case 0: { int c = 1; for (int i = 0; i < 40 && c + 3 < 250; i++) { std::string s; for (int j = 0; j < 3; j++) s += (char)(c++); strs.push_back(s); } break; }
  case 1: strs.push_back(rs("abc", 1, budget)); break;
  case 2: { size_t n = 1 + r.below(60); for (size_t i = 1; i <= n; i++) strs.push_back(std::string(i + r.below(3), 'a')); break; }
  case 3: { size_t n = 1 + r.below(60); for (size_t i = 1; i <= n; i++) { std::string s; for (size_t j = 0; j < i; j++) s += (j & 1) ? 'b' : 'a'; strs.push_back(s); } break; }
  case 4: { std::string a = "a", b = "ab"; for (int i = 0; i < 14; i++) { std::string t = b + a; a = b; b = t; if (b.size() > budget) break; strs.push_back(b); } break; }
  case 5: { std::string base = rs("abcdefgh", 20, 60); size_t n = 2 + r.below(80); for (size_t i = 0; i < n; i++) strs.push_back(base); break; }
  case 6: { std::string base = rs("abcdefghijklmnopqrstuvwxyz", 30, 80); size_t n = 2 + r.below(80); for (size_t i = 0; i < n; i++) { std::string s = base; s[r.below(s.size())] = (char)('a' + r.below(26)); strs.push_back(s); } break; }
  case 7: { size_t n = 1 + r.below(200); for (size_t i = 0; i < n; i++) strs.push_back(rs("ab", 1, 30)); break; }
  case 8: { size_t n = 1 + r.below(200); std::string alpha; for (int c = 1; c < 255; c++) alpha += (char)c; for (size_t i = 0; i < n; i++) strs.push_back(rs(alpha, 1, 40)); break; }
  case 9: { // thousands of short strings over 3-4 letters: hundreds of distinct pairs share one frequency (the pair arrays grow and shrink)
    size_t n = 1200 + r.below(g_big ? 20000 : 2500); std::string alpha = r.chance(50) ? "abc" : "abcd";
    for (size_t i = 0; i < n; i++) strs.push_back(rs(alpha, 3, 9)); break; }
  }
  std::vector<int> seq;
  for (auto &s : strs) { for (unsigned char c : s) seq.push_back((int)c); seq.push_back(0); }
  return seq;
}

static void mode_repair(uint64_t seed, long cases) {
  Rng r(seed);
  for (long cs = 0; cs < cases; cs++) {
    std::string shape;
    std::vector<int> orig = gen_repair_input(r, &shape);
    std::vector<int> work = orig;
    work.resize(orig.size() + 8, 0);
    obs::crumb("C20", "repair", shape + " len=" + std::to_string(orig.size()));
    obs::count("cls.repair_" + shape);
    RePair *rp = new RePair(work.data(), (uint)orig.size(), 0);
    uint64_t T = rp->terminals, R = rp->rules;
    if (R == 0) obs::count("cls.rules_0");
    obs::count("eval.repair_case");
    // rules: both sides non-zero, refer only to terminals or earlier... (acyclic): side < terminals + rule index is NOT required by the format,
    // only side < terminals + rules and an expansion that terminates; depth is measured with a cycle guard
    bool bad = false;
    std::vector<int> depth(R, -1);
    for (uint64_t i = 0; i < R && !bad; i++) {
      uint64_t l = rp->G->getField(2 * i), rr = rp->G->getField(2 * i + 1);
      if (l == 0 || rr == 0) { V("C20", "repair", "terminator-in-rule", shape, "rule " + std::to_string(i) + " = (" + std::to_string(l) + "," + std::to_string(rr) + ") contains the terminator 0"); bad = true; }
      if (l >= T + R || rr >= T + R) { V("C20", "repair", "wrong-answer", shape, "rule " + std::to_string(i) + " refers to symbol beyond terminals+rules"); bad = true; }
    }
    if (rp->getBits() < bits(T + R - 1) && T + R > 0) { V("C20", "repair", "wrong-answer", shape, "getBits()=" + std::to_string(rp->getBits()) + " cannot hold identifier " + std::to_string(T + R - 1)); bad = true; }
    // expansion with explicit stack + cycle guard
    auto expand = [&](uint64_t sym, std::vector<int> &out, size_t limit) -> bool {
      std::vector<uint64_t> st{sym};
      size_t steps = 0;
      while (!st.empty()) {
        if (++steps > limit * 4 + 1000) return false;
        uint64_t s = st.back(); st.pop_back();
        if (s < T) out.push_back((int)s);
        else { uint64_t i = s - T; if (i >= R) return false; st.push_back(rp->G->getField(2 * i + 1)); st.push_back(rp->G->getField(2 * i)); }
      }
      return true;
    };
    if (!bad) {
      // walk the caller's array the way the dictionaries' compaction loops do
      std::vector<int> rebuilt;
      size_t io = 0, n = orig.size();
      size_t guard = 0;
      while (io < n && guard++ < 4 * n + 10) {
        int v = work[io];
        if (v >= 0) {
          if ((uint64_t)v >= T) { if (!expand((uint64_t)v, rebuilt, n)) { V("C20", "repair", "wrong-answer", shape, "expansion of symbol " + std::to_string(v) + " does not terminate"); bad = true; break; } }
          else rebuilt.push_back(v);
          io++;
        } else io = (size_t)(-(v + 1));
      }
      obs::count("eval.repair_symbols", (long)n);
      if (!bad && rebuilt != orig) {
        size_t i = 0; while (i < rebuilt.size() && i < orig.size() && rebuilt[i] == orig[i]) i++;
        V("C20", "repair", "not-lossless", shape, "expansion differs from the original at symbol " + std::to_string(i) + " of " + std::to_string(orig.size()) + " (" + shape + ", " + std::to_string(R) + " rules)");
        bad = true;
      }
      // expandRule of the library itself agrees with the explicit expansion
      for (uint64_t i = 0; i < R && !bad && i < 3000; i++) {
        std::vector<int> e;
        if (!expand(T + i, e, n)) break;
        std::vector<uchar> buf(e.size() + 4, 0xEE);
        uint l = rp->expandRule((uint)i, buf.data());
        obs::count("eval.repair_expandRule");
        bool ok = l == e.size();
        for (size_t k = 0; ok && k < e.size(); k++) ok = buf[k] == (uchar)e[k];
        if (!ok || buf[e.size()] != 0xEE) { V("C20", "repair", "wrong-answer", shape, "expandRule(" + std::to_string(i) + ") disagrees with the grammar"); bad = true; }
      }
    }
    // save / load of the grammar
    if (!bad) {
      std::stringstream ss(std::ios::in | std::ios::out | std::ios::binary);
      rp->save(ss);
      std::string img = ss.str();
      std::stringstream in(img + "CANARY!!", std::ios::in | std::ios::binary);
      RePair *l = RePair::loadNoSeq(in);
      obs::count("eval.repair_saveload");
      if ((size_t)in.tellg() != img.size()) V("C20", "repair", "leftover-bytes", shape, "loadNoSeq consumed " + std::to_string((long)in.tellg()) + " of " + std::to_string(img.size()));
      if (l->terminals != T || l->rules != R) V("C20", "repair", "wrong-answer", shape, "counters differ after save/load");
      else
        for (uint64_t i = 0; i < 2 * R; i++)
          if (l->G->getField(i) != rp->G->getField(i)) { V("C20", "repair", "wrong-answer", shape, "rule table differs after save/load at entry " + std::to_string(i)); break; }
      delete l;
    }
    if (cs < 3) obs::line("X\tRe-Pair on a " + shape + " sequence of " + std::to_string(orig.size()) + " symbols: " + std::to_string(R) + " rules over " + std::to_string(T) + " terminals, expansion compared symbol for symbol");
    delete rp;
  }
}

int main(int argc, char **argv) {
  std::string mode, out, variants = "rg,rrr,sdarray,darray";
  uint64_t seed = 1, from = 0, to = 0;
  long cases = 100, nrandom = 100000;
  for (int i = 1; i < argc; i++) {
    std::string a = argv[i];
    auto val = [&]() { return std::string(i + 1 < argc ? argv[++i] : ""); };
    if (a == "--mode") mode = val();
    else if (a == "--out") out = val();
    else if (a == "--seed") seed = strtoull(val().c_str(), NULL, 10);
    else if (a == "--cases") cases = atol(val().c_str());
    else if (a == "--from") from = strtoull(val().c_str(), NULL, 10);
    else if (a == "--to") to = strtoull(val().c_str(), NULL, 10);
    else if (a == "--random") nrandom = atol(val().c_str());
    else if (a == "--variants") variants = val();
    else if (a == "--big") g_big = 1;
    else if (a == "--save-dir") g_savedir = val();
    else if (a == "--load-dir") g_loaddir = val();
    else { fprintf(stderr, "unknown arg %s\n", a.c_str()); return 2; }
  }
#if defined(__SANITIZE_ADDRESS__)
  obs::install(out.empty() ? NULL : out.c_str(), false);
#else
  obs::install(out.empty() ? NULL : out.c_str(), true);
#endif
  if (mode == "vbyte") mode_vbyte(from, to, seed, nrandom);
  else if (mode == "logseq") mode_logseq(seed, cases);
  else if (mode == "dacvls") mode_dacvls(seed, cases);
  else if (mode == "dacbvls") mode_dacbvls(seed, cases);
  else if (mode == "codes") mode_codes(seed, cases);
  else if (mode == "bitseq") mode_bitseq(seed, cases, variants);
  else if (mode == "wt") mode_wt(seed, cases);
  else if (mode == "repair") mode_repair(seed, cases);
  else { fprintf(stderr, "bad mode\n"); return 2; }
  obs::count("violations", obs::n_viol);
  obs::dump_counters();
  obs::line("D\tok");
  obs::flush();
  _exit(0);
}
