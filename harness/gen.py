# Seeded generators of valid input sets (sorted, duplicate-free, non-empty strings over bytes 0x02..0xFE)
# and of parameter vectors; coverage-class predicates on inputs.
import random, os

MASK = (1 << 64) - 1

def splitmix(*xs):
    z = 0x9E3779B97F4A7C15
    for x in xs:
        if isinstance(x, str):
            x = int.from_bytes(x.encode()[:8].ljust(8, b"\0"), "little") ^ len(x)
        z = (z + (x & MASK) + 0x9E3779B97F4A7C15) & MASK
        z = ((z ^ (z >> 30)) * 0xBF58476D1CE4E5B9) & MASK
        z = ((z ^ (z >> 27)) * 0x94D049BB133111EB) & MASK
        z = z ^ (z >> 31)
    return z or 1

def norm(strs):
    s = sorted(set(b for b in strs if b and all(2 <= c <= 0xFE for c in b)))
    return s

def rand_str(r, alpha, lo, hi):
    return bytes(r.choice(alpha) for _ in range(r.randint(lo, hi)))

ALPHAS = {
    "a1": b"a", "a2": b"ab", "a3": b"abc", "a4": b"acgt", "a6": b"abcdef", "a26": bytes(range(97, 123)),
    "a253": bytes(range(2, 0xFF)), "lowhigh": bytes([2, 3, 4, 0x7f, 0x80, 0xfd, 0xfe]), "digits": b"0123456789",
    "mixed": bytes([0x02, 0x41, 0x61, 0x62, 0xC3, 0xFE]),
}

def fam_uniform(r, n, alpha="a26", lo=1, hi=12):
    a = ALPHAS[alpha]
    out = set()
    tries = 0
    while len(out) < n and tries < n * 20:
        out.add(rand_str(r, a, lo, hi)); tries += 1
    return norm(out)

def fam_words(r, n):
    syl = [b"an", b"ber", b"co", b"de", b"el", b"fa", b"gra", b"hi", b"in", b"jo", b"ka", b"lo", b"mi", b"no", b"or", b"pa", b"qu", b"re", b"st", b"tion", b"un", b"ver", b"wa", b"x", b"y", b"z"]
    out = set()
    while len(out) < n:
        out.add(b"".join(r.choice(syl) for _ in range(r.randint(1, 5))))
    return norm(out)

def fam_urls(r, n):
    hosts = [b"example.org", b"example.com", b"data.gov", b"dbpedia.org", b"w3.org"]
    out = set()
    while len(out) < n:
        out.add(b"http://" + r.choice(hosts) + b"/" + r.choice([b"resource", b"page", b"ontology", b"r"]) + b"/" + r.choice([b"item", b"Person", b"x"]) + b"-%d" % r.randint(0, n * 3))
    return norm(out)

def fam_numerals(r, n):
    start = r.choice([0, 0, 1, 95, 990, 99990])
    return norm(b"%d" % i for i in range(start, start + n))

def fam_chain(r, n):
    c = bytes([r.choice([0x02, 0x61, 0x7A, 0xFE])])
    return norm(c * k for k in range(1, n + 1))

def fam_near(r, n):
    base = rand_str(r, ALPHAS["a26"], 20, 70)
    out = set()
    while len(out) < n:
        b = bytearray(base)
        for _ in range(r.randint(1, 2)):
            b[r.randrange(len(b) - 6, len(b))] = r.choice(ALPHAS["a26"])
        out.add(bytes(b))
        if len(out) < n and r.random() < 0.2:
            out.add(bytes(b) + rand_str(r, ALPHAS["a3"], 1, 3))
    return norm(out)

def fam_len1(r, n):
    pool = list(range(2, 0xFF))
    r.shuffle(pool)
    return norm(bytes([c]) for c in pool[:max(1, min(n, 253))])

def fam_samelen(r, n):
    l = r.choice([1, 2, 3, 5, 8, 16])
    a = ALPHAS[r.choice(["a2", "a4", "a26"])]
    out = set()
    tries = 0
    while len(out) < n and tries < n * 30:
        out.add(rand_str(r, a, l, l)); tries += 1
    return norm(out)

def fam_vbyte(r, n):
    # lengths and shared prefixes around the VByte width change
    L = r.choice([126, 127, 128, 129, 130, 255, 256, 300])
    pre = rand_str(r, ALPHAS["a4"], L, L)
    out = set([pre[: r.randint(1, L)] for _ in range(min(n, 6))])
    while len(out) < n:
        out.add(pre + rand_str(r, ALPHAS["a6"], 0, 6))
        if r.random() < 0.3:
            out.add(pre[: r.choice([126, 127, 128, 129])] + rand_str(r, ALPHAS["a6"], 1, 4))
        if r.random() < 0.3:
            out.add(rand_str(r, ALPHAS["a6"], 1, 5))
    return norm(out)

def fam_longshort(r, n):
    # one long string among very short ones (defeats average-based size estimates)
    out = set(fam_uniform(r, n, "a3", 1, 2))
    for _ in range(r.randint(1, 3)):
        out.add(rand_str(r, ALPHAS["a26"], 600, 4096))
    return norm(out)

def fam_long(r, n):
    out = set()
    while len(out) < n:
        out.add(rand_str(r, ALPHAS[r.choice(["a2", "a26"])], 1001, 1500))
    return norm(out)

def fam_repetitive(r, n):
    out = set()
    kind = r.randrange(4)
    for k in range(1, n + 1):
        if kind == 0: out.add(b"a" * k)
        elif kind == 1: out.add((b"ab" * k)[: k + 1])
        elif kind == 2:
            a, b = b"a", b"ab"
            for _ in range(k % 12): a, b = b, b + a
            out.add(b[:200] + b"%d" % k)
        else: out.add(b"abcabcabcabcabcabcabcabcabcabcabcabcabcabc"[: 1 + k % 40] + bytes([97 + k % 26]) * (1 + k // 40))
    return norm(out)

def fam_copies(r, n):
    base = rand_str(r, ALPHAS["a26"], 30, 50)
    return norm(base + bytes([2 + (i * 7) % 253]) for i in range(min(n, 253)))

def fam_extremes(r, n):
    out = set(fam_uniform(r, max(1, n - 4), "lowhigh", 1, 6))
    out |= {b"\x02", b"\x02\x02", b"\xfe", b"\xfe\xfe"}
    return norm(out)

def fam_norepeat(r, n):
    # strings that never repeat a byte pair across the whole set (no Re-Pair rule)
    out = []
    pairs = set()
    pool = list(range(2, 0xFF))
    for i in range(n):
        l = r.randint(1, 4)
        for _ in range(30):
            s = bytes(r.sample(pool, l))
            ps = {s[j:j + 2] for j in range(len(s) - 1)}
            if not (ps & pairs):
                pairs |= ps; out.append(s); break
    return norm(out)

def fam_last_single(r, n):
    # the lexicographically last string is one byte; others longer
    out = set(fam_uniform(r, max(1, n - 1), "a6", 2, 9))
    out.add(b"z")
    return norm(out)

def fam_skewed(r, n):
    # very skewed byte frequencies over a wide alphabet: long Huffman / Hu-Tucker codewords
    syms = list(range(3, 3 + 40)) + [0x80, 0xC0, 0xFE, 0x02]
    weights = [2 ** max(0, 24 - i) for i in range(len(syms))]
    out = set()
    while len(out) < n:
        out.add(bytes(r.choices(syms, weights)[0] for _ in range(r.randint(1, 30))))
    # make sure every symbol occurs at least once
    out.add(bytes(syms))
    return norm(out)

def fam_dense(r, n):
    # all strings over a small alphabet up to some length: dense shared prefixes, proper-prefix members
    a = ALPHAS[r.choice(["a2", "a3"])]
    out = []
    frontier = [b""]
    while len(out) < n:
        nxt = []
        for p in frontier:
            for ch in a:
                s = p + bytes([ch]); out.append(s); nxt.append(s)
        frontier = nxt
    r.shuffle(out)
    return norm(out[:n])

def fam_lcp128x(r, n):
    # dense set below a prefix of exactly 128*j bytes: consecutive strings share 128*j (+0..3) bytes, very short suffixes over a tiny
    # alphabet, many strings (so the VByte bytes get short codewords)
    L = r.choice([128, 128, 256, 384])
    a = r.choice([b"bcde", b"bcd", b"gh", b"xyz"])
    pre = bytes([a[0] - 1]) * L
    depth = 4 if len(a) >= 3 else 6
    suf = []
    frontier = [b""]
    for _ in range(depth):
        nxt = []
        for w in frontier:
            for ch in a:
                nxt.append(w + bytes([ch]))
        suf += nxt
        frontier = nxt
    suf.sort()
    k = max(2, min(n, len(suf)))
    if r.random() < 0.5:
        pick = suf[:k]
    else:
        start = r.randrange(0, len(suf) - k + 1)
        pick = suf[start:start + k]
    out = set(pre + x for x in pick)
    if r.random() < 0.3:
        out.add(pre)
    return norm(out)

def fam_geometric_big(r, n):
    # ~n strings over letters with geometric frequencies plus a few strings using bytes that occur once or twice in the whole text:
    # with >= 2^17 characters the rare bytes get Huffman / Hu-Tucker codewords longer than the 16-bit chunk of the decoding table
    letters = bytes(range(ord("a"), ord("a") + 18))
    weights = [2 ** (18 - i) for i in range(18)]
    out = set()
    while len(out) < n:
        out.add(bytes(r.choices(letters, weights)[0] for _ in range(r.randint(4, 12))))
    rare = [0x03, 0x05, 0x23, 0x7E, 0x90, 0xA1, 0xE9, 0xFD]
    for b in rare:
        w = bytes(r.choices(letters, weights)[0] for _ in range(r.randint(2, 5)))
        out.add(bytes([b]) + w)                      # sorts first / last: always among the sampled members
        if r.random() < 0.6:
            out.add(w + bytes([b]) + w[:2])
    return norm(out)

def fam_tinydense(r, n):
    # every string of length 1..k over 2-4 letters (tiny members whose whole encoding fits into a byte) next to random ones of up to 40 letters
    a = bytes(range(ord("a"), ord("a") + r.choice([2, 3, 3, 4])))
    out = set()
    frontier = [b""]
    while True:
        nxt = [p + bytes([ch]) for p in frontier for ch in a]
        if len(out) + len(nxt) > max(len(a), n // 2):
            break
        out.update(nxt)
        frontier = nxt
    tries = 0
    while len(out) < n and tries < 20 * n:
        out.add(bytes(r.choice(a) for _ in range(r.randint(1, 40))))
        tries += 1
    return norm(out)

def fam_stempairs(r, n):
    # random stems over a small alphabet, each with one to three tiny suffixes: buckets whose internal strings are a prefix-length
    # byte and one letter, so that the chunk ending a bucket header reaches over whole internal strings and beyond the bucket
    alpha = r.choice([b"cdefgh", b"cd", b"cdefghijklmnop", b"cdefghijklmnop", b"cdefghijklmnopqrstuvwxyz", b"cdefghijklmnopqrstuvwxyz", b"cde"])
    lo = r.choice([1, 2, 4, 4, 8, 8, 10, 12]); hi = lo + r.choice([0, 1, 2, 4])
    suf = r.choice([(b"a", b"b"), (b"a", b"b"), (b"a",), (b"a", b"b", b"c"), (b"", b"a")])
    out = set()
    tries = 0
    while len(out) < n and tries < 20 * n:
        st = bytes(r.choice(alpha) for _ in range(r.randint(lo, hi)))
        out.update(st + x for x in suf if st + x)
        tries += 1
    return norm(out)

def fam_wordpairs(r, n, wps=10, v=700):
    # strings of `wps` random two-byte "words" out of `v` (first byte 0x02..0x7F, second 0x80..0xFE): Re-Pair first turns the words into
    # rules and meanwhile (byte,word), (word,byte), (word,word) pairs pile up - far more distinct pairs alive at once than byte text has
    allw = [bytes([a, b]) for a in range(0x02, 0x80) for b in range(0x80, 0xFF)]
    words = r.sample(allw, v)
    out = set()
    while len(out) < n:
        out.add(b"".join(r.choice(words) for _ in range(wps)))
    return norm(out)

def fam_geomwords(r, n):
    # words of 6..40 letters whose letter frequencies halve from one letter to the next: codewords of 1, 2, 3, ... bits next to
    # rare long ones, members of 5..15 coded bytes - the decoders' byte-refill and padding steps meet every phase
    letters = b"abcdefghijklmnopqrstuvwxyz"[:r.choice([8, 12, 16, 26])]
    w = [2 ** (len(letters) - i) for i in range(len(letters))]
    out = set()
    tries = 0
    while len(out) < n and tries < 30 * n:
        out.add(bytes(r.choices(letters, w, k=r.randint(6, 40))))
        tries += 1
    return norm(out)

def fam_longcode(r, n):
    # ~160 KB of text over 10 letters whose frequencies double, plus a few bytes that occur once: together with the weight-1 entries the
    # Huffman / Hu-Tucker models give unused bytes, the rare symbols get codewords longer than the 16-bit decoding-table chunk, so
    # decoding subtrees (DecodingTree) exist; fewer, longer strings when n is small so the text stays long enough
    n = max(40, min(n, 16000))
    letters = bytes(range(ord("a"), ord("a") + 10))
    weights = [2 ** (10 - i) for i in range(10)]
    avg = max(9, 165000 // n)
    out = set()
    while len(out) < n:
        out.add(bytes(r.choices(letters, weights, k=r.randint(avg - avg // 4, avg + avg // 4))))
    base = sorted(out)
    for b in (0x04, 0x7E, 0xA1, 0xFD):
        w = bytes(r.choices(letters, weights, k=r.randint(2, 5)))
        out.add(bytes([b]) + w)
        out.add(w + bytes([b]) + w[:2])
        if b in (0x7E, 0xFD):
            out.add(bytes([b]))                      # the whole string is one long codeword
    # members that share an unusual prefix length with their predecessor and add one byte: in the front-coded kinds the (rare) prefix-length
    # symbol has a long codeword and is followed by a one-symbol suffix
    for k in (9, 13, 17, 23, 29, 37, 41, 53, 67, 90, 111):
        x = r.choice(base)
        if len(x) > k + 1 and x[k] != letters[-1]:
            out.add(x[:k] + bytes([max(x[k] + 1, letters[-2])]))
    return norm(out)

FAMILIES = {
    "uniform26": lambda r, n: fam_uniform(r, n, "a26", 1, 12),
    "uniform2": lambda r, n: fam_uniform(r, n, "a2", 1, 14),
    "uniform4": lambda r, n: fam_uniform(r, n, "a4", 1, 10),
    "uniform3": lambda r, n: fam_uniform(r, n, "a3", 3, 9),
    "uniform253": lambda r, n: fam_uniform(r, n, "a253", 1, 8),
    "mixed": lambda r, n: fam_uniform(r, n, "mixed", 1, 9),
    "words": fam_words, "urls": fam_urls, "numerals": fam_numerals, "chain": fam_chain, "near": fam_near,
    "len1": fam_len1, "samelen": fam_samelen, "vbyte": fam_vbyte, "longshort": fam_longshort, "long": fam_long,
    "repetitive": fam_repetitive, "copies": fam_copies, "extremes": fam_extremes, "norepeat": fam_norepeat,
    "last_single": fam_last_single, "skewed": fam_skewed, "dense": fam_dense, "lcp128x": fam_lcp128x, "longcode": fam_longcode, "tinydense": fam_tinydense, "stempairs": fam_stempairs, "geomwords": fam_geomwords,
}

def corner_corpus():
    """Fixed hand-written corpus (DESIGN Appendix D), run at every seed."""
    C = []
    def add(name, strs):
        s = norm(strs)
        if s: C.append((name, s))
    add("one", [b"a"]); add("two", [b"a", b"b"]); add("chain3", [b"a", b"ab", b"abc"])
    add("letters26", [bytes([c]) for c in range(97, 123)])
    add("repo13", [b"AAAAAAAAA" + bytes([65 + i]) for i in range(13)])
    add("numerals1000", [b"%d" % i for i in range(1000)])
    add("repo53", [b"x" + b"A" * 51 + bytes([65 + i]) for i in range(10)])
    for b in (2, 3, 4, 8):
        for n in (b - 1, b, b + 1, 2 * b, 2 * b + 1):
            if n >= 1:
                r = random.Random(b * 100 + n)
                add("abc_b%d_n%d" % (b, n), fam_uniform(r, n, "a3", 1, 5)[:n])
    for L in (126, 127, 128, 129, 255, 256):
        add("lcp%d" % L, [b"q" * L + b"a", b"q" * L + b"b", b"r"])
        add("len%d" % L, [b"a", b"b" * L, b"c", b"cd"])
    add("bytes_lo_hi", [b"\x02", b"\x02\x02", b"m", b"\xfe", b"\xfe\xfe"])
    add("runs40", [b"a" * k for k in range(1, 41)])
    add("runs300", [b"a" * k for k in range(1, 301)])                      # every LCP 0..299 incl. 128 and 256 with one-byte suffixes
    add("lcp128_dense340", [b"a" * 128 + bytes(w) for w in __import__("itertools").chain.from_iterable(__import__("itertools").product(b"bcde", repeat=l) for l in range(1, 5))])
    add("lcp128_dense", [b"g" * 128 + x for x in (b"a", b"aa", b"ab", b"b", b"ba", b"bb", b"c", b"ca", b"cb", b"cc")] + [b"g" * 256 + x for x in (b"a", b"ab", b"b", b"bb", b"c")] + [b"a", b"b"])
    add("lcp_mult128", [b"g" * 128, b"g" * 128 + b"a", b"g" * 128 + b"ab", b"g" * 128 + b"b", b"h" * 256, b"h" * 256 + b"x", b"h" * 257 + b"y", b"i"])
    add("abab", [(b"ab" * 30)[:k] for k in range(1, 50)])
    add("copies64", [b"the quick brown fox jumps over the lazy dog" [:40] + bytes([40 + i]) for i in range(64)])
    add("last_single_z", [b"apple", b"banana", b"cherry", b"z"])
    add("last_long", [b"a", b"b", b"zzzzzzzzzzzzzzzzzzzzzzzz"])
    add("norepeat", [b"ab", b"cd", b"ef", b"gh", b"ij"])
    add("urls500", [b"http://host/dir/dir/file-%d" % i for i in range(500)])
    add("single_long", [b"x" * 700])
    add("lcp16390", [b"a", b"x" * 16390, b"x" * 16390 + b"a", b"x" * 16390 + b"ab", b"x" * 16390 + b"b", b"y"])   # three-byte VByte with a zero middle byte
    add("lcp17000", [b"a", b"x" * 17000, b"x" * 17000 + b"a", b"x" * 17000 + b"ab", b"x" * 17000 + b"b", b"y"])   # three-byte VByte
    add("two_prefix", [b"abc", b"abcd"])
    rr = random.Random(977)
    add("rare_longest_first", [bytes(rr.choice(b"xyz") for _ in range(rr.randint(3, 12))) for _ in range(300)] + [bytes(range(0x21, 0x49))])  # the longest member opens the first bucket and compresses worst
    add("rare_longest", [bytes(rr.choice(b"abcd") for _ in range(rr.randint(3, 12))) for _ in range(420)] + [bytes(range(0x80, 0xE4))])  # longest string is the worst-compressed one
    add("words7", [b"alpha", b"alpine", b"beta", b"betamax", b"gamma", b"gammb", b"zeta"])
    return C

# ---- predicates on inputs (input classes for signatures / coverage) -----------------------------------------
def lcp(a, b):
    m = min(len(a), len(b)); i = 0
    while i < m and a[i] == b[i]: i += 1
    return i

def input_classes(S, bs=0):
    n = len(S)
    cl = set()
    if n == 1: cl.add("n1")
    if n == 2: cl.add("n2")
    L = max(len(s) for s in S)
    if all(len(s) == 1 for s in S): cl.add("all_len1")
    if len(S[-1]) == 1: cl.add("last_len1")
    if L >= 128: cl.add("len_ge128")
    if any(len(s) in (127, 128, 129) for s in S): cl.add("len_127_128_129")
    ml = max([lcp(S[i], S[i + 1]) for i in range(n - 1)] or [0])
    if ml >= 128: cl.add("lcp_ge128")
    if ml >= 16384: cl.add("lcp_ge16384")
    if any(2 in s for s in S): cl.add("byte_02")
    if any(0xFE in s for s in S): cl.add("byte_FE")
    if L >= 1000: cl.add("len_ge1000")
    lc = [lcp(S[i], S[i + 1]) for i in range(n - 1)]
    if any(x in (127, 128, 129) for x in lc): cl.add("lcp_127_128_129")
    if any(x >= 128 and x % 128 == 0 for x in lc): cl.add("lcp_mult128")
    if any(x >= 16384 and ((x >> 7) & 127) == 0 for x in lc): cl.add("lcp_vbyte_zero_middle")
    if any(S[i + 1][:len(S[i])] == S[i] for i in range(n - 1)): cl.add("member_is_proper_prefix")
    sigma = len(set(b"".join(S)))
    if sigma <= 2: cl.add("alphabet_le2")
    if sigma >= 200: cl.add("alphabet_ge200")
    if sum(len(s) + 1 for s in S) >= 131072: cl.add("text_ge_128KiB")
    return cl | bucket_classes(n, bs)

def bucket_classes(n, bs):
    cl = set()
    if bs:
        if n % bs == 0: cl.add("n_mult_b")
        if n % bs == 1 and n > bs: cl.add("n_mult_b_plus1")
        if n < bs: cl.add("n_lt_b")
        if n % bs != 0 and n > bs: cl.add("last_bucket_partial")
        if (n + bs - 1) // bs >= 3: cl.add("buckets_ge3")
        if (n + bs - 1) // bs >= 2: cl.add("buckets_ge2")
    return cl

def write_input(path, S):
    with open(path, "wb") as f:
        f.write(b"\0".join(S) + b"\0")
