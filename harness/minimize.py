# Witness minimisation: ddmin over the list of strings, then shortening strings, while the signature stays the same.
import sys, os, json, time
from dictcheck import *

def sig_of(run, case, prop, want):
    """does the case still produce a finding with the wanted (op, fclass, site) for prop?"""
    c, res, fs = run.run_case(case)
    for f in fs:
        if prop in f["props"] and f["fclass"] == want["fclass"] and f["op"] == want["op"] and (want.get("site") in (None, "?", f["site"])):
            return True, f
    return False, None

def clone(case, S):
    return Case(case.kind, case.p, case.iname + ":min", S, case.state, case.opt, case.ops, case.big, case.memalloc, case.seed, case.flavor, case.env, extra=case.extra, cpu=case.cpu)

def minimize(run, case, prop, want, budget_s=120, log=None):
    t0 = time.time()
    S = list(case.S)
    best = case
    def test(T):
        if not T or time.time() - t0 > budget_s:
            return False
        T = sorted(set(T))
        ok, _ = sig_of(run, clone(case, T), prop, want)
        return ok
    # ddmin on the list
    n = 2
    while len(S) >= 2 and time.time() - t0 < budget_s:
        chunk = max(1, len(S) // n)
        reduced = False
        for i in range(0, len(S), chunk):
            T = S[:i] + S[i + chunk:]
            if T and test(T):
                S = sorted(set(T)); n = max(n - 1, 2); reduced = True
                break
        if not reduced:
            if chunk == 1:
                break
            n = min(len(S), n * 2)
    # shorten strings (drop a byte range / keep distinctness)
    changed = True
    while changed and time.time() - t0 < budget_s:
        changed = False
        for i in range(len(S)):
            s = S[i]
            for cut in (len(s) // 2, len(s) // 4, 1):
                if cut < 1 or len(s) - cut < 1:
                    continue
                for where in ("tail", "head", "mid"):
                    t = s[:-cut] if where == "tail" else s[cut:] if where == "head" else s[:len(s) // 2 - cut // 2] + s[len(s) // 2 - cut // 2 + cut:]
                    if not t or t in S:
                        continue
                    T = sorted(set(S[:i] + [t] + S[i + 1:]))
                    if len(T) == len(S) and test(T):
                        S = T; changed = True
                        break
                if changed:
                    break
            if changed:
                break
    return clone(case, S)

if __name__ == "__main__":
    # usage: minimize.py replay.json  -> prints the minimised input
    obj = json.load(open(sys.argv[1]))
    case = Case.from_json(obj["case"])
    if os.environ.get("MIN_OPS"):
        case.ops = tuple(os.environ["MIN_OPS"].split(","))
    if os.environ.get("MIN_CPU"):
        case.cpu = int(os.environ["MIN_CPU"])
    prop = obj["property"]
    want = obj["signature"]
    wd = os.path.join(VERIF, ".work", "min-%d" % os.getpid())
    run = DictRun(prop, "quick", 1, wd, Known(os.devnull))
    try:
        m = minimize(run, case, prop, want, budget_s=float(os.environ.get("MIN_BUDGET", "180")))
        print("minimised to %d strings:" % len(m.S))
        for s in m.S:
            print("   ", s if len(s) < 300 else (s[:100], "...", len(s)))
        print("params", m.p, "state", m.state, "ops", m.ops)
        out = dict(obj); out["case"] = m.to_json()
        json.dump(out, open(sys.argv[1] + ".min.json", "w"))
    finally:
        import shutil
        shutil.rmtree(wd, ignore_errors=True)
