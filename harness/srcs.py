#!/usr/bin/python3
# Prints the library source files of /repo (libCSD + bundled libcds) as listed in the CMake files.
import re, sys, os
repo = sys.argv[1] if len(sys.argv) > 1 else "/repo"
out = []
for cm, base in (("CMakeLists.txt", ""), ("libcds/CMakeLists.txt", "libcds/")):
    for line in open(os.path.join(repo, cm), encoding="latin-1"):
        line = line.split("#", 1)[0].strip()
        m = re.fullmatch(r"([\w./+-]+\.cpp)", line)
        if m and not m.group(1).startswith("test/"):
            p = base + m.group(1)
            if os.path.exists(os.path.join(repo, p)) and p not in out:
                out.append(p)
# libcds pieces that no dictionary uses and that do not build standalone are still listed by CMake; keep them.
print(" ".join(out))
