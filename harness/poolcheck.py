# Concurrency checks (C09, C10, C11): run pool_driver under the deadlock monitor / ThreadSanitizer and turn what was observed into findings.
import os, sys, time, json, re, subprocess, signal, collections, hashlib
from concurrent.futures import ThreadPoolExecutor
from core import *
from dictcheck import DictRun
import gen

class PoolCase:
    """one pool_driver process"""
    def __init__(self, mode, flavor, seed, args, iname="", S=None, tag=""):
        self.mode, self.flavor, self.seed, self.args, self.iname, self.S, self.tag = mode, flavor, seed, list(args), iname, S or [], tag
        self.kind = "POOL" if mode == "pool" else "BLOCKS"
        self.state = flavor
        self.p = (0, 0, 0)
        self.opt = 1
    def key(self):
        return "%s|%s|%d|%s|%s" % (self.mode, self.flavor, self.seed, " ".join(self.args), self.iname)
    def ctx(self):
        return {"kind": self.kind, "state": self.state, "mode": self.mode, "flavor": self.flavor, "seed": self.seed, "n": len(self.S), "iname": self.iname, "args": " ".join(self.args)}
    def describe(self):
        return {"driver": "pool_driver", "mode": self.mode, "flavor": self.flavor, "seed": self.seed, "args": self.args, "input": self.iname, "n": len(self.S)}
    def to_json(self):
        d = self.describe()
        d["S_b64"] = b64list(self.S)
        return d

def thread_states(pid):
    """-> list of (tid, state, syscall, ctxt switches, utime+stime) or None if the process is gone"""
    out = []
    try:
        tids = os.listdir("/proc/%d/task" % pid)
    except OSError:
        return None
    for t in tids:
        try:
            st = open("/proc/%d/task/%s/stat" % (pid, t)).read()
            rp = st.rindex(")")
            f = st[rp + 2:].split()
            state = f[0]
            cpu = int(f[11]) + int(f[12])
            sc = open("/proc/%d/task/%s/syscall" % (pid, t)).read().split()
            sysc = sc[0] if sc else "?"
            cs = 0
            for ln in open("/proc/%d/task/%s/status" % (pid, t)):
                if "ctxt_switches" in ln:
                    cs += int(ln.split()[1])
            out.append((t, state, sysc, cs, cpu))
        except (OSError, ValueError, IndexError):
            continue
    return out

def run_monitored(argv, env, outp, errp, cpu_s=600, wall_s=900, detect_deadlock=True):
    """-> (rc, status, info): status in ok|crash|deadlock|wall"""
    with open(errp, "wb") as ef:
        p = subprocess.Popen(argv, stdout=subprocess.DEVNULL, stderr=ef, stdin=subprocess.DEVNULL, env=env, preexec_fn=lambda: (os.setsid(), resource.setrlimit(resource.RLIMIT_CPU, (cpu_s, cpu_s + 5)), resource.setrlimit(resource.RLIMIT_CORE, (0, 0))))
    t0 = time.time()
    same = 0
    prev = None
    info = ""
    status = None
    while True:
        try:
            rc = p.wait(timeout=0.2)
            break
        except subprocess.TimeoutExpired:
            pass
        if time.time() - t0 > wall_s:
            status = "wall"
        elif detect_deadlock:
            ts = thread_states(p.pid)
            if ts:
                # every thread asleep; those in futex (202) with frozen context-switch counters; at most one other thread (a sanitizer
                # runtime's background thread sleeping in nanosleep) and no CPU consumed by the whole process
                infutex = [x for x in ts if x[2] == "202"]
                others = [x for x in ts if x[2] != "202"]
                asleep = all(s_ == "S" for (_, s_, _, _, _) in ts)
                ok_others = len(others) == 0 or (len(others) == 1 and len(ts) >= 3 and others[0][2] in ("35", "230"))
                snap = (tuple(sorted((t, cs) for (t, _, _, cs, _) in infutex)), sum(cpu for (_, _, _, _, cpu) in ts) // 2)
                if asleep and ok_others and infutex and snap == prev:
                    same += 1
                else:
                    same = 0
                prev = snap
                need = 6 if not others else 25   # > 1 s, or > 5 s when a runtime helper thread is around
                if same >= need:   # nothing can ever run again: a lost wake-up / lock cycle, independent of machine load
                    status = "deadlock"
                    info = "threads=%d all in futex wait" % len(infutex)
                    try:
                        g = subprocess.run(["gdb", "-p", str(p.pid), "-batch", "-ex", "thread apply all bt 7"], capture_output=True, text=True, timeout=30)
                        frames = [l for l in g.stdout.split("\n") if l.startswith("#") or l.startswith("Thread")]
                        info += "\n" + "\n".join(frames[:60])
                    except Exception:
                        pass
        if status:
            try:
                os.killpg(p.pid, signal.SIGKILL)
            except OSError:
                pass
            rc = p.wait()
            break
    return rc, status, info

TSAN_BLOCK_RE = re.compile(r"WARNING: ThreadSanitizer: ([^\n(]+)[^\n]*\n(.*?)(?:\n\n|\nSUMMARY)", re.S)

def tsan_reports(text):
    """-> list of (kind, site pair key, excerpt); de-duplicated by the pair of top repository frames without line numbers"""
    out = []
    for blk in re.split(r"(?=WARNING: ThreadSanitizer:)", text):
        if not blk.startswith("WARNING: ThreadSanitizer:"):
            continue
        kind = re.match(r"WARNING: ThreadSanitizer: ([a-zA-Z -]+)", blk).group(1).strip().replace(" ", "-")
        # the stacks of the two accesses
        stacks = re.split(r"\n\s*\n", blk)
        sites = []
        for st in stacks[:3]:
            s = site_of(st)
            if s != "?":
                sites.append(s)
        key = "+".join(sorted(set(sites))[:2]) or "?"
        out.append((kind, key, blk[:3000]))
    return out

class PoolRun(DictRun):
    def __init__(self, prop, tier, seed, workdir, known):
        DictRun.__init__(self, prop, tier, seed, workdir, known)
        self.tsan_seen = collections.Counter()
        self.orders = set()
        self.lock2 = threading.Lock()

    def run_pool_case(self, case):
        cid = self.runner.next_id()
        outp = os.path.join(self.workdir, "p%d.out" % cid)
        errp = os.path.join(self.workdir, "p%d.err" % cid)
        argv = [binpath(case.flavor, "pool_driver"), "--mode", case.mode, "--seed", str(case.seed), "--out", outp] + case.args
        if case.mode == "blocks":
            inp = os.path.join(self.workdir, "pin_%s" % hashlib.sha1(b"\0".join(case.S)).hexdigest()[:12])
            if not os.path.exists(inp):
                gen.write_input(inp, case.S)
            argv += ["--input", inp]
        env = dict(os.environ)
        env["TSAN_OPTIONS"] = "halt_on_error=0:exitcode=0:report_signal_unsafe=0:history_size=4:second_deadlock_stack=1"
        env["LC_ALL"] = "C"
        rc, status, info = run_monitored(argv, env, outp, errp, cpu_s=1200, wall_s=1500, detect_deadlock=True)
        if status is None and rc == -signal.SIGKILL:   # killed from outside (out-of-memory killer, operator): decides nothing
            status = "wall"
        if status == "wall":   # wall clock never decides: once more
            rc, status, info = run_monitored(argv, env, outp, errp, cpu_s=1200, wall_s=1500, detect_deadlock=True)
            if status is None and rc == -signal.SIGKILL:
                status = "wall"
        out = parse_out(outp)
        last_l = ""
        orders = []
        try:
            for ln in open(outp, "rb").read().decode("latin-1").split("\n"):
                if ln.startswith("L\t"):
                    last_l = ln[2:]
                elif ln.startswith("O\t"):
                    orders.append(ln[2:])
        except OSError:
            pass
        try:
            err = open(errp, "rb").read().decode("latin-1")
        except OSError:
            err = ""
        for pth in (outp, errp):
            try:
                os.unlink(pth)
            except OSError:
                pass
        return case, rc, status, info, out, err, last_l, orders

    def record_pool(self, tup):
        case, rc, status, info, out, err, last_l, orders = tup
        prop = self.prop
        with self.lock:
            self.stat["cases"] += 1
            self.per_kind[case.kind] += 1
            self.per_state[case.flavor] += 1
            self.results.append((case, {"status": "ok" if (status is None and out["done"]) else (status or "crash"), "out": out}))
            for k, v in out["counters"].items():
                if k in ("distinct_completion_orders", "distinct_task_worker_assignments"):
                    continue
                if k == "max_concurrent_builders":
                    self.counters[k] = max(self.counters[k], v)
                else:
                    self.counters[k] += v
            for o in orders:
                self.orders.add(o)
            if len(self.samples) < 10 and out["samples"]:
                self.samples.append("[%s/%s] %s" % (case.mode, case.flavor, out["samples"][0]))
            fs = []
            for v in out["viol"]:
                fs.append((v["props"], dict(kind=case.kind, state=case.flavor, op=v["op"], fclass=v["fclass"], site="oracle", qcls=v["qcls"]), v["detail"], ""))
            if status == "deadlock":
                fs.append((["C10", "C09"], dict(kind=case.kind, state=case.flavor, op=case.mode, fclass="deadlock", site="?", qcls="scheduler-state"), "every thread blocked in futex with no progress: " + last_l + " [" + info.split("\n")[0] + "]", info))
            elif status == "wall":
                self.stat["inconclusive_wall"] += 1
            elif status is None and not out["done"]:
                fclass, site = classify_stderr(err)
                if fclass and fclass.startswith("tsan"):
                    fclass = None
                if fclass is None:
                    fclass = "signal:%d" % (-rc) if rc < 0 else "exit:%d" % rc
                    if rc == -signal.SIGXCPU:
                        fclass = "cpu-limit"
                    site = "?"
                fs.append((["C07", "C09", "C10"], dict(kind=case.kind, state=case.flavor, op=case.mode, fclass=fclass, site=site, qcls="-"), "process ended abnormally during " + last_l, err[:4000]))
            if case.flavor == "tsan":
                reps = tsan_reports(err)
                self.counters["tsan_report_blocks"] += len(reps)
                for kind, key, blk in reps:
                    self.tsan_seen[(kind, key)] += 1
                    fs.append((["C11"], dict(kind=case.kind, state="tsan", op=case.mode, fclass="tsan:" + kind, site=key, qcls="-"), "ThreadSanitizer report during " + last_l, blk))
            ok = status is None and out["done"]
            if ok:
                self.stat["completed"] += 1
                self.all_keys.add(case.key())
                self.nontrivial_keys.add(case.key())
            else:
                self.stat["crashed"] += 1
            ctx = case.ctx()
            seen = set()
            for props, sig, detail, extra in fs:
                if prop not in props:
                    continue
                sig = dict(sig, property=prop)
                skey = "|".join(sig[k] for k in ("property", "kind", "state", "op", "fclass", "site", "qcls"))
                if skey in seen:
                    continue
                seen.add(skey)
                kn = self.known.match(sig, ctx)
                if kn:
                    self.known_seen[kn["id"]] += 1
                    self.stat["known_observations"] += 1
                    continue
                e = self.findings.get(skey)
                if e is None:
                    self.findings[skey] = {"sig": sig, "count": 1, "case": case, "detail": detail, "stderr": extra, "crash": False}
                else:
                    e["count"] += 1

    def run_pool_all(self, cases):
        t0 = time.time()
        with ThreadPoolExecutor(max_workers=JOBS) as ex:
            for tup in ex.map(self.run_pool_case, cases):
                self.record_pool(tup)
        return time.time() - t0
