// C14: history differencing. The same queries are issued (a) in a long seeded history with repeats, failed
// lookups and several iterators drained in interleaved order, (b) in a permuted order on a second copy,
// (c) as the very first call on fresh copies; all answers must agree with each other and with the model.
#ifndef VERIF_DICT_HIST_H
#define VERIF_DICT_HIST_H
#include "dict_ops.h"

struct HQ {
  int type; // 0 locate 1 extract 2 locatePrefix 3 extractPrefix 4 locateSubstr 5 extractSubstr 6 extractRank 7 table
  std::string arg;
  size_t id = 0;
};
static const char *HQ_NAMES[] = {"locate", "extract", "locatePrefix", "extractPrefix", "locateSubstr", "extractSubstr", "extractRank", "extractTable"};

static inline std::string hq_str(const HQ &q) {
  return std::string(HQ_NAMES[q.type]) + "(" + (q.type == 1 || q.type == 6 ? std::to_string(q.id) : obs::esc(q.arg, 40)) + ")";
}
// identity of a query (full argument, never truncated)
static inline std::string hq_key(const HQ &q) {
  return std::string(HQ_NAMES[q.type]) + "\x01" + (q.type == 1 || q.type == 6 ? std::to_string(q.id) : q.arg);
}

static inline std::string strs_canon(const std::vector<StrItem> &v, bool ordered) {
  std::vector<std::string> s;
  for (auto &x : v) s.push_back(x.s);
  if (!ordered) std::sort(s.begin(), s.end());
  uint64_t h = FNV0;
  for (auto &x : s) h = fnv1a(h, x.c_str(), x.size() + 1);
  return std::to_string(s.size()) + ":" + std::to_string(h);
}

// complete, non-interleaved evaluation
static inline std::string hq_eval(Ctx &c, StringDictionary *d, const HQ &q) {
  StringDictionary *saved = c.d;
  c.d = d;
  std::string r;
  switch (q.type) {
  case 0: {
    size_t id = do_locate(c, q.arg, "C14", "history", "locate");
    r = std::to_string(id);
    break;
  }
  case 1: {
    std::string e; bool isnull; uint rl;
    bool got = do_extract(c, q.id, &e, &isnull, &rl, "C14", "history");
    r = got ? "s:" + e : "NULL";
    break;
  }
  case 2:
  case 4: {
    Pat p(q.arg);
    obs::crumb("C14", "history", hq_str(q));
    IteratorDictID *it = q.type == 2 ? d->locatePrefix(p.b, (uint)p.len) : d->locateSubstr(p.b, (uint)p.len);
    chk_intact(p, "history", HQ_NAMES[q.type]);
    p.release();
    if (!it) { r = "NULLIT"; break; }
    bool over;
    std::vector<size_t> ids = drain_ids(c, it, &over);
    delete it;
    std::sort(ids.begin(), ids.end());
    uint64_t h = FNV0;
    for (size_t x : ids) h = fnv1a(h, &x, sizeof x);
    r = std::to_string(ids.size()) + ":" + std::to_string(h) + (over ? "!" : "");
    break;
  }
  case 3:
  case 5:
  case 7: {
    Pat p(q.arg.empty() ? std::string("x") : q.arg);
    obs::crumb("C14", "history", hq_str(q));
    IteratorDictString *it = q.type == 3 ? d->extractPrefix(p.b, (uint)p.len) : q.type == 5 ? d->extractSubstr(p.b, (uint)p.len) : d->extractTable();
    chk_intact(p, "history", HQ_NAMES[q.type]);
    p.release();
    if (!it) { r = "0:" + std::to_string(FNV0); break; } // NULL and empty are the same answer
    bool over, ns;
    std::vector<StrItem> v = drain_strs(c, it, &over, &ns);
    delete it;
    r = strs_canon(v, c.ordered()) + (over ? "!" : "") + (ns ? "?" : "");
    break;
  }
  case 6: {
    uint len = SENT;
    obs::crumb("C14", "history", hq_str(q));
    uchar *s = d->extractRank((uint)q.id, &len);
    if (!s) r = "NULL";
    else { r = std::string("s:") + (char *)s; delete[] s; }
    break;
  }
  }
  c.d = saved;
  return r;
}

// another copy of the dictionary under test: loaded from its image, or (fresh state, no image) built again; with `other_way` the
// copy of a built dictionary is instead a loaded one (built, saved, destroyed, loaded), so that objects of both origins live and
// die next to the dictionary under test
static inline StringDictionary *fresh_copy(Ctx &c, const std::string &img, bool other_way = false) {
  obs::crumb("C14", "history", other_way ? "make another copy (other origin)" : "make another copy");
  if (img.empty()) {
    StringDictionary *b = build_dict(c.kind, c.P, c.m);
    if (!other_way || !b)
      return b;
    std::string im2 = save_image(b);
    delete b;
    std::stringstream s2(im2, std::ios::in | std::ios::binary);
    return load_own(c.kind, s2, c.opt);
  }
  if (other_way) {
    obs::count("cls.copy_built_next_to_loaded");
    return build_dict(c.kind, c.P, c.m);
  }
  std::stringstream ss(img, std::ios::in | std::ios::binary);
  return load_own(c.kind, ss, c.opt);
}

static inline void op_history(Ctx &c, const std::string &img) {
  if (c.skip.count("history"))
    return;
  const Model &m = c.m;
  Rng &r = c.rng;
  // ---- query pool
  std::vector<HQ> pool;
  std::vector<AbsQ> abs = gen_absent(c);
  {
    std::vector<AbsQ> col;
    gen_colliding(c, col);
    // colliding lookups take the early-return paths of the hash kinds: make them frequent
    for (int rep = 0; rep < 4; rep++) abs.insert(abs.end(), col.begin(), col.end());
  }
  std::vector<PQ> pfx, sub;
  if (has_prefix(c.kind) && !c.skip.count("locatePrefix")) pfx = gen_prefixes(c);
  if (has_substr(c) && !c.skip.count("locateSubstr")) sub = gen_substrs(c);
  size_t H = c.big ? 2000 : 300;
  bool noLP = c.skip.count("locatePrefix"), noEP = c.skip.count("extractPrefix"), noLS = c.skip.count("locateSubstr"), noES = c.skip.count("extractSubstr");
  for (size_t t = 0; t < H; t++) {
    HQ q;
    int pick = (int)r.below(100);
    if (!pool.empty() && pick < 25) { // repeat an earlier query
      pool.push_back(pool[r.below(pool.size())]);
      obs::count("cls.op_repeated");
      continue;
    }
    if (pick < 42) { q.type = 0; q.arg = m.S[r.below(m.n)]; }
    else if (pick < 62 && !abs.empty()) { q.type = 0; q.arg = abs[r.below(abs.size())].q; obs::count("cls.failed_lookup"); }
    else if (pick < 72) { q.type = 1; q.id = r.chance(85) ? 1 + r.below(m.n) : (r.chance(50) ? 0 : m.n + 1 + r.below(5)); }
    else if (pick < 80 && !pfx.empty() && !noLP) { q.type = 2; q.arg = pfx[r.below(pfx.size())].p; }
    else if (pick < 88 && !pfx.empty() && !noEP) { q.type = 3; q.arg = pfx[r.below(pfx.size())].p; }
    else if (pick < 92 && !sub.empty() && !noLS) { q.type = 4; q.arg = sub[r.below(sub.size())].p; }
    else if (pick < 96 && !sub.empty() && !noES) { q.type = 5; q.arg = sub[r.below(sub.size())].p; }
    else if (pick < 98 && !c.skip.count("rank")) { q.type = 6; q.id = 1 + r.below(m.n); }
    else if (c.kind != K_XBW && m.n <= 5000 && !c.skip.count("extractTable")) { q.type = 7; }
    else { q.type = 0; q.arg = m.S[r.below(m.n)]; }
    if (q.type == 0 && c.skip.count("locate")) continue;
    if (q.type == 1 && c.skip.count("extract")) continue;
    pool.push_back(q);
  }
  // ---- (a) the history on c.d, with string iterators opened and drained in interleaved order
  struct Open { size_t qi; IteratorDictString *it; std::vector<StrItem> got; Pat *p; };
  std::vector<Open> open;
  std::vector<std::string> ansA(pool.size());
  std::map<std::string, std::string> first_answer;
  auto step_open = [&](size_t k) {
    Open &o = open[k];
    obs::crumb("C14", "history", "advance interleaved iterator of " + hq_str(pool[o.qi]));
    bool done = true;
    if (o.it && o.got.size() <= m.n + 2 && o.it->hasNext()) {
      uint len = SENT;
      uchar *s = o.it->next(&len);
      if (s) {
        o.got.push_back({std::string((char *)s), len});
        delete[] s;
        done = false;
      }
    }
    if (done) {
      ansA[o.qi] = strs_canon(o.got, c.ordered());
      if (o.it) delete o.it;
      delete o.p;
      open.erase(open.begin() + k);
    }
  };
  for (size_t i = 0; i < pool.size(); i++) {
    const HQ &q = pool[i];
    bool interleave = (q.type == 3 || q.type == 5 || q.type == 7) && open.size() < 3 && r.chance(60);
    if (interleave) {
      Pat *p = new Pat(q.arg.empty() ? std::string("x") : q.arg);
      obs::crumb("C14", "history", "open " + hq_str(q));
      IteratorDictString *it = q.type == 3 ? c.d->extractPrefix(p->b, (uint)p->len) : q.type == 5 ? c.d->extractSubstr(p->b, (uint)p->len) : c.d->extractTable();
      chk_intact(*p, "history", HQ_NAMES[q.type]);
      p->release();   // the buffer is gone while the iterator stays open
      open.push_back({i, it, {}, p});
      obs::count("cls.iter_interleaved");
    } else {
      ansA[i] = hq_eval(c, c.d, q);
    }
    obs::count("eval.history_call");
    // advance some open iterators between calls
    for (int s = 0; s < 2 && !open.empty(); s++)
      step_open(r.below(open.size()));
  }
  while (!open.empty())
    step_open(r.below(open.size()));
  // repeated queries must repeat their answers
  for (size_t i = 0; i < pool.size(); i++) {
    std::string key = hq_key(pool[i]);
    auto it = first_answer.find(key);
    if (it == first_answer.end()) first_answer[key] = ansA[i];
    else {
      obs::count("eval.history_repeat");
      if (it->second != ansA[i])
        obs::violation("C14", "history", "history-dependent", HQ_NAMES[pool[i].type], hq_str(pool[i]) + " answered " + obs::esc(it->second, 60) + " first and " + obs::esc(ansA[i], 60) + " later (call " + std::to_string(i) + ")");
    }
  }
  // ---- (b) permuted order on a second copy
  StringDictionary *d2 = fresh_copy(c, img);
  if (d2) {
    std::vector<size_t> perm(pool.size());
    for (size_t i = 0; i < perm.size(); i++) perm[i] = i;
    for (size_t i = perm.size(); i > 1; i--) std::swap(perm[i - 1], perm[r.below(i)]);
    for (size_t k = 0; k < perm.size(); k++) {
      size_t i = perm[k];
      std::string a = hq_eval(c, d2, pool[i]);
      obs::count("eval.history_permuted");
      if (a != ansA[i]) {
        obs::violation("C14", "history", "history-dependent", HQ_NAMES[pool[i].type], hq_str(pool[i]) + " answered " + obs::esc(ansA[i], 60) + " in the history and " + obs::esc(a, 60) + " in a permuted history on another copy");
        break;
      }
    }
    obs::crumb("C14", "history", "delete second copy");
    delete d2;
  }
  // ---- (c) as the first call on fresh copies
  size_t K = c.big ? 24 : 6;
  for (size_t t = 0; t < K && !pool.empty(); t++) {
    size_t i = r.below(pool.size());
    StringDictionary *d3 = fresh_copy(c, img, t % 2 == 1);
    if (!d3) break;
    std::string a = hq_eval(c, d3, pool[i]);
    obs::count("eval.history_first_call");
    if (a != ansA[i])
      obs::violation("C14", "history", "history-dependent", HQ_NAMES[pool[i].type], hq_str(pool[i]) + " answered " + obs::esc(ansA[i], 60) + " in the history and " + obs::esc(a, 60) + " as first call on a fresh copy");
    obs::crumb("C14", "history", "delete fresh copy");
    delete d3;
    // the dictionary under test must not notice that other dictionaries (built or loaded) came and went
    size_t j = r.below(pool.size());
    obs::crumb("C14", "history", "after a copy was destroyed: " + hq_str(pool[j]));
    std::string b = hq_eval(c, c.d, pool[j]);
    obs::count("eval.history_after_copy_destroyed");
    obs::count("cls.survives_copy_destruction");
    if (b != ansA[j])
      obs::violation("C14", "history", "history-dependent", HQ_NAMES[pool[j].type], hq_str(pool[j]) + " answered " + obs::esc(ansA[j], 60) + " in the history and " + obs::esc(b, 60) + " after another copy of the dictionary was created and destroyed");
  }
  // ---- model agreement for what the model determines
  for (size_t i = 0; i < pool.size(); i++) {
    const HQ &q = pool[i];
    std::string exp;
    bool have = false;
    if (q.type == 0 && (c.ordered() || !m.has(q.arg))) { exp = std::to_string(m.rank(q.arg)); have = true; }
    else if (q.type == 1 && c.ordered()) { exp = (q.id >= 1 && q.id <= m.n) ? "s:" + m.S[q.id - 1] : "NULL"; have = true; }
    else if (q.type == 3) {
      size_t lo, hi; m.prefixRange(q.arg, &lo, &hi);
      std::vector<StrItem> v; for (size_t k = lo; k <= hi; k++) v.push_back({m.S[k - 1], 0});
      exp = strs_canon(v, c.ordered()); have = true;
    } else if (q.type == 5) {
      std::vector<StrItem> v; for (size_t id : m.substrSet(q.arg)) v.push_back({m.S[id - 1], 0});
      exp = strs_canon(v, c.ordered()); have = true;
    } else if (q.type == 7) {
      std::vector<StrItem> v; for (auto &s : m.S) v.push_back({s, 0});
      exp = strs_canon(v, c.ordered()); have = true;
    }
    if (q.type == 0 && !c.ordered() && m.has(q.arg)) {
      // hash kinds: the ID of a member is arbitrary, but it must be a valid ID whose string is the member (locate/extract closure)
      obs::count("eval.history_model");
      size_t id = strtoull(ansA[i].c_str(), NULL, 10);
      std::string e; bool isnull = true; uint rl = 0;
      bool ok = id >= 1 && id <= m.n && do_extract(c, id, &e, &isnull, &rl, "C14", "history") && e == q.arg;
      if (!ok) {
        obs::violation("C14", "history", "wrong-answer-in-history", HQ_NAMES[q.type], hq_str(q) + " (call " + std::to_string(i) + ") answered " + obs::esc(ansA[i], 60) + " for a member" + (id >= 1 && id <= m.n ? ", whose extract is " + obs::esc(e, 60) : std::string()));
        break;
      }
    }
    if (have) {
      obs::count("eval.history_model");
      if (exp != ansA[i]) {
        obs::violation("C14", "history", "wrong-answer-in-history", HQ_NAMES[q.type], hq_str(q) + " (call " + std::to_string(i) + ") answered " + obs::esc(ansA[i], 60) + ", model says " + obs::esc(exp, 60));
        break;
      }
    }
  }
  c.sample(std::string(KIND_NAMES[c.kind]) + "/" + c.state + " history of " + std::to_string(pool.size()) + " calls, e.g. " + (pool.size() > 2 ? hq_str(pool[0]) + "; " + hq_str(pool[1]) + "; " + hq_str(pool[2]) : std::string()));
}
#endif
