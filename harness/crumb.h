// Observation channel + "current operation" breadcrumb shared by the drivers.
// Records are TAB separated lines on a dedicated file descriptor (the library chats on stdout/stderr):
//   V <props> <op> <failure-class> <input-class> <detail>     violation seen by an oracle
//   S <key> <value>                                           counter / coverage class
//   T <section> <rawhash> <normhash> <items>                  transcript section
//   I <name> <hash> <len>                                     image bytes
//   C <signal|asan> <props> <op> <detail>                     crash breadcrumb (written from handlers)
//   X <text>                                                  sample (for evidence)
//   D ok                                                      clean end of the case
#ifndef VERIF_CRUMB_H
#define VERIF_CRUMB_H
#include <csignal>
#include <cstdarg>
#include <cstdio>
#include <cstdlib>
#include <cstring>
#include <fcntl.h>
#include <map>
#include <string>
#include <sys/resource.h>
#include <unistd.h>

namespace obs {
static int fd = 2;
static char buf[1 << 16];
static volatile size_t blen = 0;

static inline void flush() {
  size_t n = blen;
  size_t off = 0;
  while (off < n) {
    ssize_t w = write(fd, buf + off, n - off);
    if (w <= 0)
      break;
    off += (size_t)w;
  }
  blen = 0;
}
static inline void raw(const char *s, size_t n) {
  if (n > sizeof(buf)) {
    flush();
    (void)!write(fd, s, n);
    return;
  }
  if (blen + n > sizeof(buf))
    flush();
  memcpy(buf + blen, s, n);
  blen += n;
}
static inline void line(const std::string &s) {
  raw(s.data(), s.size());
  raw("\n", 1);
}
static inline std::string esc(const std::string &s, size_t maxlen = 96) {
  std::string o;
  char t[8];
  size_t lim = std::min(s.size(), maxlen);
  for (size_t i = 0; i < lim; i++) {
    unsigned char c = (unsigned char)s[i];
    if (c >= 0x20 && c < 0x7f && c != '\\' && c != '"') {
      o += (char)c;
    } else {
      snprintf(t, sizeof t, "\\x%02x", c);
      o += t;
    }
  }
  if (s.size() > maxlen) {
    snprintf(t, sizeof t, "..");
    o += t;
    o += "(" + std::to_string(s.size()) + "B)";
  }
  return o;
}

// ---- breadcrumb (plain static storage, readable from signal handlers)
static char c_props[64] = "-";
static char c_op[64] = "startup";
static char c_detail[400] = "";
static inline void crumb(const char *props, const char *op, const std::string &detail = std::string()) {
  strncpy(c_props, props, sizeof(c_props) - 1);
  strncpy(c_op, op, sizeof(c_op) - 1);
  size_t n = std::min(detail.size(), sizeof(c_detail) - 1);
  memcpy(c_detail, detail.data(), n);
  c_detail[n] = 0;
}
static char extra_props_c[32] = "";
static volatile sig_atomic_t crumb_written = 0;
static inline void write_crumb(const char *why) {
  if (crumb_written)
    return;
  crumb_written = 1;
  flush();
  char t[700];
  int n = snprintf(t, sizeof t, "C\t%s\t%s%s\t%s\t%s\n", why, c_props, extra_props_c, c_op, c_detail);
  if (n > 0)
    (void)!write(fd, t, (size_t)std::min(n, (int)sizeof t));
}
static void on_signal(int sig) {
  const char *nm = sig == SIGSEGV ? "SIGSEGV" : sig == SIGABRT ? "SIGABRT" : sig == SIGXCPU ? "SIGXCPU"
                 : sig == SIGBUS ? "SIGBUS" : sig == SIGFPE ? "SIGFPE" : sig == SIGILL ? "SIGILL" : "SIG";
  write_crumb(nm);
  signal(sig, SIG_DFL);
  raise(sig);
}
static inline void install(const char *path, bool handle_segv) {
  if (path) {
    int f = open(path, O_WRONLY | O_CREAT | O_TRUNC | O_CLOEXEC, 0644);
    if (f >= 0)
      fd = f;
  }
  signal(SIGXCPU, on_signal);
  signal(SIGABRT, on_signal);
  signal(SIGFPE, on_signal);
  signal(SIGILL, on_signal);
  if (handle_segv) {
    signal(SIGSEGV, on_signal);
    signal(SIGBUS, on_signal);
  }
}

// ---- counters
static std::map<std::string, long> counters;
static inline void count(const std::string &k, long d = 1) { counters[k] += d; }
static inline void dump_counters() {
  for (auto &kv : counters)
    line("S\t" + kv.first + "\t" + std::to_string(kv.second));
}
static long n_viol = 0;
static std::string extra_props; // properties every wrong answer also violates because of the object state (",C06" loaded, ",C08" re-saved)
static inline void violation(const char *props, const std::string &op, const std::string &fclass,
                             const std::string &iclass, const std::string &detail) {
  n_viol++;
  if (n_viol <= 40)
    line(std::string("V\t") + props + extra_props + "\t" + op + "\t" + fclass + "\t" + iclass + "\t" + detail);
}
} // namespace obs

// AddressSanitizer calls this before it prints a report (also for SEGV it handles itself).
extern "C" void __asan_on_error() { obs::write_crumb("asan"); }

#endif
