// Worker pool / parallel block build stress with hook event recorder, seeded delay injection and (plain flavor only) a
// pthread_cond_wait interposer that widens the window between a worker's predicate evaluation and its blocking.
//   pool_driver --mode pool   --lifecycles N --seed S [--maxworkers W] [--maxtasks T] [--delay-us D] [--window 0|1] --out FILE
//   pool_driver --mode blocks --input FILE --schedules N --seed S [--delay-us D] --out FILE
// Deadlocks are decided by the parent from scheduler state (/proc), never by a timer in here: this process has no helper threads.
#include "dict_ops.h"
#include "parallel/Worker.hpp"
#include <atomic>
#include <dlfcn.h>
#include <fstream>
#include <pthread.h>
#include <time.h>

#if defined(__SANITIZE_THREAD__)
#define UNDER_TSAN 1
#else
#define UNDER_TSAN 0
#endif
#if defined(__SANITIZE_ADDRESS__)
#define UNDER_ASAN 1
#else
#define UNDER_ASAN 0
#endif

// ---------------------------------------------------------------------------------------------- event recorder
struct Ev {
  int id;
  long a, b;
  unsigned long tid;
};
static const size_t EVCAP = 1 << 21;
static Ev *g_ev = NULL;
static std::atomic<size_t> g_nev{0};
static std::atomic<uint64_t> g_plan_seed{1};
static std::atomic<long> g_delay_us{0};
static std::atomic<int> g_block_mode{0};   // 0 none, 1 reversed, 2 rotated, 3 random, 4 producer-slow
static std::atomic<long> g_nblocks_hint{0};
static std::atomic<int> g_in_window{0};
static std::atomic<long> g_window_hits{0}, g_stop_in_window{0}, g_add_in_window{0}, g_add_all_in_window{0}, g_windows{0};
static std::atomic<int> g_window_on{0};
static std::atomic<int> g_nworkers_now{0};

static inline uint64_t mix(uint64_t a, uint64_t b) {
  uint64_t z = a + 0x9E3779B97F4A7C15ull * (b + 1);
  z = (z ^ (z >> 30)) * 0xBF58476D1CE4E5B9ull;
  z = (z ^ (z >> 27)) * 0x94D049BB133111EBull;
  return z ^ (z >> 31);
}
static inline void sleep_us(long us) {
  if (us <= 0) return;
  struct timespec ts = {us / 1000000, (us % 1000000) * 1000};
  nanosleep(&ts, NULL);
}

static void on_point(int id, long a, long b) {
  size_t k = g_nev.fetch_add(1, std::memory_order_relaxed);
  if (k < EVCAP) g_ev[k] = {id, a, b, (unsigned long)pthread_self()};
  long D = g_delay_us.load(std::memory_order_relaxed);
  uint64_t seed = g_plan_seed.load(std::memory_order_relaxed);
  using namespace libcsd_verif;
  // notifications that land while a worker sits between its predicate and its blocking
  if (id == PT_POOL_ENQUEUED || id == PT_POOL_STOP_SET) {
    // give sleeping-to-be workers a chance to be inside the window when the notification is sent
    if (g_window_on.load() && D > 0 && (mix(seed, k) % 4 == 0 || id == PT_POOL_STOP_SET)) {
      for (int spin = 0; spin < 60 && g_in_window.load() == 0; spin++) sleep_us(10);
    }
    int w = g_in_window.load();
    if (w > 0) {
      g_window_hits++;
      if (id == PT_POOL_STOP_SET) g_stop_in_window++; else g_add_in_window++;
      if (id == PT_POOL_ENQUEUED && w >= g_nworkers_now.load() && w > 0) g_add_all_in_window++;
    }
  }
  if (D <= 0) return;
  // inside the producer's critical sections: lingering here is harmless while the pool mutex is really held (a worker cannot be
  // between its predicate and its blocking then); if it is not held, workers pass their predicate now and the state change and the
  // notification that follow fall into their window
  if (id == PT_POOL_STOP_LOCKED || id == PT_POOL_ADD_LOCKED) {
    uint64_t h = mix(seed, ((uint64_t)id << 40) ^ k);
    if (h % 3 != 0) sleep_us((long)((h >> 8) % (uint64_t)(D + 1)));
    return;
  }
  int bm = g_block_mode.load(std::memory_order_relaxed);
  if (id == PT_BLOCK_BUILT && bm) {
    long nb = std::max<long>(1, g_nblocks_hint.load());
    long unit = (nb <= 16 && (bm == 1 || bm == 2)) ? 3000 : std::max<long>(50, D); // few blocks: make the forced order dominate the build times
    long d = 0;
    if (bm == 1) d = (nb - 1 - std::min(a, nb - 1)) * unit;            // reversed completion order
    else if (bm == 2) d = ((a + nb / 2) % nb) * unit;                    // rotated
    else if (bm == 3) d = (long)(mix(seed, (uint64_t)a) % (uint64_t)(nb * unit + 1));
    // (the forced order costs at most ~4 s of sleeping per build, however many blocks there are)
    sleep_us(std::min<long>(d, std::max<long>(200, std::min<long>(200000, 4000000 / nb))));
    return;
  }
  if (id == PT_BLOCK_QUEUED && bm == 4) { sleep_us((long)(mix(seed, (uint64_t)a + 77) % (uint64_t)(4 * D + 1))); return; }
  // generic seeded jitter at every point (about one point in three sleeps)
  uint64_t h = mix(seed, ((uint64_t)id << 32) ^ (uint64_t)a ^ (k << 8));
  if (h % 3 == 0) sleep_us((long)((h >> 8) % (uint64_t)(D + 1)));
}

#if !UNDER_TSAN
// Interposed: a sleep here is a preemption after the wait predicate was found false and before the thread blocks (the mutex is
// still held, exactly as it would be). Definitions in the executable take precedence over libpthread's for libstdc++ too.
extern "C" int pthread_cond_wait(pthread_cond_t *c, pthread_mutex_t *m) {
  typedef int (*fn)(pthread_cond_t *, pthread_mutex_t *);
  static fn real = (fn)dlsym(RTLD_NEXT, "pthread_cond_wait");
  if (g_window_on.load(std::memory_order_relaxed)) {
    long D = g_delay_us.load(std::memory_order_relaxed);
    if (D > 0) {
      g_in_window++;
      g_windows++;
      uint64_t h = mix(g_plan_seed.load(), (uint64_t)pthread_self() ^ (uint64_t)g_windows.load());
      sleep_us((long)(h % (uint64_t)(D + 1)));
      g_in_window--;
    }
  }
  return real(c, m);
}
// the timed variants (std::condition_variable::wait_for / wait_until end up here): same window
static void window_sleep() {
  if (g_window_on.load(std::memory_order_relaxed)) {
    long D = g_delay_us.load(std::memory_order_relaxed);
    if (D > 0) {
      g_in_window++;
      g_windows++;
      uint64_t h = mix(g_plan_seed.load(), (uint64_t)pthread_self() ^ (uint64_t)g_windows.load());
      sleep_us((long)(h % (uint64_t)(D + 1)));
      g_in_window--;
    }
  }
}
extern "C" int pthread_cond_timedwait(pthread_cond_t *c, pthread_mutex_t *m, const struct timespec *t) {
  typedef int (*fn)(pthread_cond_t *, pthread_mutex_t *, const struct timespec *);
  static fn real = (fn)dlsym(RTLD_NEXT, "pthread_cond_timedwait");
  window_sleep();
  return real(c, m, t);
}
extern "C" int pthread_cond_clockwait(pthread_cond_t *c, pthread_mutex_t *m, clockid_t clk, const struct timespec *t) {
  typedef int (*fn)(pthread_cond_t *, pthread_mutex_t *, clockid_t, const struct timespec *);
  static fn real = (fn)dlsym(RTLD_NEXT, "pthread_cond_clockwait");
  window_sleep();
  return real(c, m, clk, t);
}
#endif

// ---------------------------------------------------------------------------------------------- pool lifecycles
struct TaskState {
  std::atomic<int> runs{0};
  std::atomic<int> inflight{0};
  std::atomic<int> overlap{0};
};

static long run_pool_lifecycle(uint64_t seed, int workers, int tasks, int protocol, long lifecycle_no) {
  using namespace libcsd_verif;
  g_nev.store(0);
  g_plan_seed.store(seed);
  g_nworkers_now.store(workers);
  std::vector<TaskState> ts(tasks);
  std::mutex m;
  std::condition_variable cv;
  int done = 0;
  int expected_exits = workers;   // (protocol h runs a second pool next to the first)
  int late_from = tasks;          // tasks with an index >= late_from were handed over after the stop: at most once, not exactly once
  {
    char t[160];
    snprintf(t, sizeof t, "lifecycle=%ld workers=%d tasks=%d protocol=%c seed=%llu", lifecycle_no, workers, tasks, "abcdefghi"[protocol], (unsigned long long)seed);
    obs::crumb("C10", "pool", t);
    // the parent reads the current lifecycle from the output file if it has to kill a deadlocked process
    obs::line(std::string("L\t") + t);
    obs::flush();
  }
  {
    WorkerPool pool(workers);
    WorkerPool *pp = &pool;
    auto body = [&ts](int i) {
      TaskState &s = ts[i];
      if (s.inflight.fetch_add(1) != 0) s.overlap++;
      s.runs++;
      volatile unsigned x = 0;
      for (int k = 0; k < 50 + (i * 37) % 400; k++) x += k;
      s.inflight--;
    };
    Rng r(seed);
    if (protocol == 0) { // add all, stop, wait: tasks still queued at stop must run
      for (int i = 0; i < tasks; i++) pool.add_task([i, &body]() { body(i); });
      pool.stop_all_workers();
      pool.wait_workers();
    } else if (protocol == 1) { // the block constructor's protocol
      for (int i = 0; i < tasks; i++)
        pool.add_task([i, &body, &m, &cv, &done]() {
          body(i);
          { std::lock_guard<std::mutex> lg(m); done++; }
          cv.notify_all();
        });
      {
        std::unique_lock<std::mutex> ul(m);
        cv.wait(ul, [&]() { return done == tasks; });
      }
      pool.stop_all_workers();
      pool.wait_workers();
    } else if (protocol == 2) { // a task stops the pool (the repository test's protocol); every task was added before
      if (tasks == 0) {
        pool.stop_all_workers();
      } else {
        int stopper = (int)r.below(tasks);
        std::atomic<int> all_added{0};   // only tasks handed over BEFORE the stop must run: the stopper waits until all are queued
        std::atomic<int> *pa = &all_added;
        for (int i = 0; i < tasks; i++) {
          if (i == stopper) pool.add_task([i, &body, pp, pa]() { body(i); while (!pa->load()) sched_yield(); pp->stop_all_workers(); });
          else pool.add_task([i, &body]() { body(i); });
        }
        all_added.store(1);
        pool.wait_workers();
        goto accounted;
      }
      pool.wait_workers();
    accounted:;
    } else if (protocol == 4) { // stop while tasks are pending; the running tasks hand over further tasks after the stop: the worker that
                                // runs such a task looks at the queue again before it exits, so the late tasks must run exactly once too
      int roots = (tasks + 1) / 2;
      late_from = roots;
      for (int i = 0; i < roots; i++) {
        int child = i + roots;
        if (child < tasks) pool.add_task([i, child, &body, pp]() { body(i); pp->add_task([child, &body]() { body(child); }); });
        else pool.add_task([i, &body]() { body(i); });
      }
      pool.stop_all_workers();
      pool.wait_workers();
    } else if (protocol == 5) { // a burst, a long idle pause (all workers asleep for 0.7 s), a second burst: idling must not cost tasks
      int first = tasks / 2;
      for (int i = 0; i < first; i++)
        pool.add_task([i, &body, &m, &cv, &done]() {
          body(i);
          { std::lock_guard<std::mutex> lg(m); done++; }
          cv.notify_all();
        });
      {
        std::unique_lock<std::mutex> ul(m);
        cv.wait(ul, [&]() { return done == first; });
      }
      sleep_us(700000);
      for (int i = first; i < tasks; i++) pool.add_task([i, &body]() { body(i); });
      pool.stop_all_workers();
      pool.wait_workers();
    } else if (protocol == 6) { // fork-join inside the pool: the last task hands over a child and waits for it, so (with >= 2 workers)
                                // a sleeping sibling has to be woken by a hand-over that comes from a worker thread
      if (workers < 2 || tasks < 2) {
        for (int i = 0; i < tasks; i++) pool.add_task([i, &body]() { body(i); });
      } else {
        int parent = tasks - 2, child = tasks - 1;
        for (int i = 0; i < parent; i++)
          pool.add_task([i, &body, &m, &cv, &done]() {
            body(i);
            { std::lock_guard<std::mutex> lg(m); done++; }
            cv.notify_all();
          });
        {
          std::unique_lock<std::mutex> ul(m);
          cv.wait(ul, [&]() { return done == parent; });
        }
        sleep_us((long)r.below(2000));   // the siblings go back to sleep
        std::mutex cm;
        std::condition_variable ccv;
        bool child_done = false;
        pool.add_task([parent, child, &body, pp, &cm, &ccv, &child_done]() {
          body(parent);
          pp->add_task([child, &body, &cm, &ccv, &child_done]() {
            body(child);
            { std::lock_guard<std::mutex> lg(cm); child_done = true; }
            ccv.notify_all();
          });
          std::unique_lock<std::mutex> ul(cm);
          ccv.wait(ul, [&]() { return child_done; });
        });
        {   // (stopping earlier would let the siblings exit before the child exists: the protocol's own deadlock, not the pool's)
          std::unique_lock<std::mutex> ul(cm);
          ccv.wait(ul, [&]() { return child_done; });
        }
        pool.stop_all_workers();
        pool.wait_workers();
        goto accounted2;
      }
      pool.stop_all_workers();
      pool.wait_workers();
    accounted2:;
    } else if (protocol == 7) { // two pools alive at once: B is stopped and joined while A stays in service
      int wb = 1 + (int)r.below(4);
      expected_exits = workers + wb;
      {
        WorkerPool poolB(wb);
        int first = tasks / 2;
        for (int i = 0; i < first; i++) {
          if (i % 2) poolB.add_task([i, &body]() { body(i); });
          else pool.add_task([i, &body]() { body(i); });
        }
        poolB.stop_all_workers();
        poolB.wait_workers();
        for (int i = first; i < tasks; i++) {   // A was never stopped: it must go on serving
          if (r.chance(30)) sleep_us((long)r.below(400));
          pool.add_task([i, &body]() { body(i); });
        }
      }
      pool.stop_all_workers();
      pool.wait_workers();
    } else if (protocol == 8) { // a join object owned only by task closures: its destructor (run by whichever worker drops the last
                                // closure) hands the continuation over to the pool
      if (tasks < 3) {
        for (int i = 0; i < tasks; i++) pool.add_task([i, &body]() { body(i); });
      } else {
        struct Join {
          WorkerPool *p; int cont; std::function<void(int)> *b; std::mutex *m; std::condition_variable *cv; bool *flag;
          ~Join() {
            int c = cont; auto bb = b; auto mm = m; auto cc = cv; auto ff = flag;
            p->add_task([c, bb, mm, cc, ff]() { (*bb)(c); { std::lock_guard<std::mutex> lg(*mm); *ff = true; } cc->notify_all(); });
          }
        };
        std::function<void(int)> bodyf = body;
        bool cont_done = false;
        int cont = tasks - 1;
        int subs = std::min(tasks - 1, 2 + (int)r.below(3));
        {
          std::shared_ptr<Join> j(new Join{pp, cont, &bodyf, &m, &cv, &cont_done});
          for (int i = 0; i < subs; i++) pool.add_task([i, j, &body]() { body(i); });
        }   // the closures are the only owners now
        for (int i = subs; i < cont; i++) {
          if (r.chance(30)) sleep_us((long)r.below(300));
          pool.add_task([i, &body]() { body(i); });
        }
        {
          std::unique_lock<std::mutex> ul(m);
          cv.wait(ul, [&]() { return cont_done; });
        }
      }
      pool.stop_all_workers();
      pool.wait_workers();
    } else { // tasks trickle in while workers go back to sleep in between
      for (int i = 0; i < tasks; i++) {
        sleep_us((long)r.below(300));
        pool.add_task([i, &body]() { body(i); });
      }
      sleep_us((long)r.below(300));
      pool.stop_all_workers();
      pool.wait_workers();
    }
  }
  // ---- exactly-once / no self-concurrency
  long bad = 0;
  for (int i = 0; i < tasks; i++) {
    obs::count("eval.task_accounting");
    int runs = ts[i].runs.load();
    if (i >= late_from && runs == 0) continue;   // handed over after the stop: the property does not promise that it runs
    if (runs != 1) {
      bad++;
      obs::violation("C10", "pool", runs == 0 ? "task-lost" : "task-ran-twice", std::string("protocol_") + "abcdefghi"[protocol],
                     "task " + std::to_string(i) + " ran " + std::to_string(runs) + " times; " + obs::c_detail);
    }
    if (ts[i].overlap.load()) {
      bad++;
      obs::violation("C10", "pool", "self-concurrent", std::string("protocol_") + "abcdefghi"[protocol], "task " + std::to_string(i) + " overlapped with itself; " + obs::c_detail);
    }
  }
  // ---- offline check of the hook event log
  size_t n = std::min(g_nev.load(), EVCAP);
  long enq = 0, pop = 0, beg = 0, end = 0, wexit = 0;
  std::map<long, int> exited;
  for (size_t k = 0; k < n; k++) {
    const Ev &e = g_ev[k];
    if (e.id == PT_POOL_ENQUEUED) enq++;
    else if (e.id == PT_WORKER_POP) { pop++; if (exited.count(e.a)) { bad++; obs::violation("C10", "pool", "pop-after-exit", "events", "worker " + std::to_string(e.a) + " popped a task after its exit event; " + obs::c_detail); } }
    else if (e.id == PT_WORKER_TASK_BEGIN) beg++;
    else if (e.id == PT_WORKER_TASK_END) end++;
    else if (e.id == PT_WORKER_EXIT) { wexit++; exited[e.a] = 1; }
  }
  obs::count("eval.event_log_checks", 4);
  if (n < EVCAP && (enq != tasks || pop != tasks || beg != tasks || end != tasks || wexit != expected_exits) && late_from == tasks) {
    bad++;
    obs::violation("C10", "pool", "event-accounting", std::string("protocol_") + "abcdefghi"[protocol],
                   "enqueued=" + std::to_string(enq) + " popped=" + std::to_string(pop) + " begun=" + std::to_string(beg) + " ended=" + std::to_string(end) + " worker_exits=" + std::to_string(wexit) +
                       " expected tasks=" + std::to_string(tasks) + " workers=" + std::to_string(workers) + "; " + obs::c_detail);
  }
  obs::count("events_recorded", (long)n);
  return bad;
}

static int mode_pool(long lifecycles, uint64_t seed, int maxworkers, int maxtasks, long delay_us, int window) {
  g_delay_us.store(delay_us);
  g_window_on.store(window && !UNDER_TSAN);
  Rng r(seed);
  std::map<std::string, long> shapes;
  for (long l = 0; l < lifecycles; l++) {
    int workers = 1 + (int)r.below(maxworkers);
    int tasks = (int)r.below(maxtasks + 1);
    if (r.chance(15)) tasks = 0;
    if (r.chance(15)) workers = 1;
    int protocol = (int)r.below(5);
    if (r.chance(4)) protocol = 5;          // (costs 0.7 s of real idling: a few per process)
    else if (r.chance(12)) protocol = 6;
    else if (r.chance(12)) protocol = 7;
    else if (r.chance(12)) protocol = 8;
    if (r.chance(6)) tasks = 70 + (int)r.below(400);   // a backlog that stays non-empty over many pops
    uint64_t ls = mix(seed, (uint64_t)l);
    run_pool_lifecycle(ls, workers, tasks, protocol, l);
    obs::count("eval.lifecycle");
    obs::count(std::string("cls.protocol_") + "abcdefghi"[protocol]);
    if (tasks == 0) obs::count("cls.tasks_0");
    if (workers == 1) obs::count("cls.workers_1");
    if (tasks > workers) obs::count("cls.tasks_gt_workers");
    if (tasks > 64) obs::count("cls.tasks_gt_64");
    if (l < 3) {
      char t[160];
      snprintf(t, sizeof t, "pool lifecycle: %d workers, %d tasks, protocol %c, delay<=%ldus, window interposer %s", workers, tasks, "abcdefghi"[protocol], delay_us, g_window_on.load() ? "on" : "off");
      obs::line(std::string("X\t") + t);
    }
  }
  obs::count("cls.window_hits", g_window_hits.load());
  obs::count("cls.stop_in_window", g_stop_in_window.load());
  obs::count("cls.add_in_window", g_add_in_window.load());
  obs::count("cls.add_in_window_all_workers", g_add_all_in_window.load());
  obs::count("windows_opened", g_windows.load());
  return 0;
}

// ---------------------------------------------------------------------------------------------- block builds
static int mode_blocks(const std::string &input, long schedules, uint64_t seed, long delay_us, long only_threads, const std::string &only_cuts, bool parallel_first) {
  using namespace libcsd_verif;
  std::vector<std::string> strs;
  {
    std::ifstream in(input, std::ios::binary);
    std::string all((std::istreambuf_iterator<char>(in)), std::istreambuf_iterator<char>());
    size_t p = 0;
    while (p < all.size()) {
      size_t q = all.find('\0', p);
      if (q == std::string::npos) q = all.size();
      strs.push_back(all.substr(p, q - p));
      p = q + 1;
    }
  }
  Model m;
  std::string why = m.init(strs);
  if (!why.empty()) { obs::line("E\tinvalid-input\t" + why); obs::flush(); return 2; }
  size_t textlen = 0, minlen = (size_t)-1;
  for (auto &s : m.S) { textlen += s.size() + 1; minlen = std::min(minlen, s.size()); }
  Rng r(seed);
  std::vector<unsigned long> cuts = {1, minlen + 1, std::max<size_t>(1, textlen / 2), std::max<size_t>(1, textlen / 3), std::max<size_t>(1, textlen / 7), std::max<size_t>(1, textlen / 16), textlen + 10};
  if (!only_cuts.empty()) {   // --cuts a,b,c: many-block builds (thousands of tiny blocks completing while the producer is still cutting)
    cuts.clear();
    size_t p = 0;
    while (p < only_cuts.size()) {
      size_t q = only_cuts.find(',', p);
      if (q == std::string::npos) q = only_cuts.size();
      cuts.push_back(strtoul(only_cuts.substr(p, q - p).c_str(), NULL, 10));
      p = q + 1;
    }
  }
  std::set<uint64_t> orders, assignments;
  long maxconc_seen = 0;
  if (parallel_first) {
    // the very first construction of this process is a parallel one (no single-threaded build has warmed up any lazily
    // initialised shared table); the single-threaded reference is built afterwards
    Params P;
    P.p1 = 25; P.p2 = (long)std::max<size_t>(1, textlen / (4 + r.below(6))); P.p3 = only_threads > 0 ? (int)only_threads : 8;
    g_delay_us.store(0); g_block_mode.store(0); g_nev.store(0);
    char t[200];
    snprintf(t, sizeof t, "schedule=first n=%zu cut=%ld overhead=25 threads=%ld (first construction of the process)", m.n, P.p2, P.p3);
    obs::crumb("C09,C11", "blocks", t);
    obs::line(std::string("L\t") + t);
    obs::flush();
    StringDictionary *d0 = build_dict(K_BLOCKS, P, m);
    std::string img0 = save_image(d0);
    Ctx c;
    c.kind = K_BLOCKS; c.P = P; c.m = m; c.d = d0; c.state = "fresh"; c.rng = Rng(seed); c.ops = {"locate", "extract"}; c.samples_left = 0;
    long v0 = obs::n_viol;
    op_member(c);
    if (obs::n_viol != v0) obs::violation("C09", "blocks", "wrong-answer", "threads", std::string("locate/extract wrong after a parallel build: ") + t);
    delete d0;
    P.p3 = 1;
    StringDictionary *r0 = build_dict(K_BLOCKS, P, m);
    std::string rimg0 = save_image(r0);
    delete r0;
    obs::count("eval.image_comparison");
    obs::count("eval.block_build");
    obs::count("cls.parallel_build_first");
    if (img0 != rimg0) obs::violation("C09", "blocks", "image-differs", "threads", std::string("image of the first (parallel) build of the process differs from the single-threaded build: ") + t);
  }
  for (long s = 0; s < schedules; s++) {
    unsigned long cut = cuts[r.below(cuts.size())];
    int overhead = (int)std::vector<int>{0, 10, 25, 100}[r.below(4)];
    int threads = only_threads > 0 ? (int)only_threads : (int)std::vector<int>{2, 3, 4, 8, 16}[r.below(5)];
    int bm = (int)r.below(5);
    Params P;
    P.p1 = overhead; P.p2 = (long)cut; P.p3 = 1;
    // reference: one worker, no delays
    g_delay_us.store(0);
    g_block_mode.store(0);
    g_nev.store(0);
    obs::crumb("C09,C11", "blocks", "reference build cut=" + std::to_string(cut));
    StringDictionary *ref = build_dict(K_BLOCKS, P, m);
    std::string refimg = save_image(ref);
    size_t nref = std::min(g_nev.load(), EVCAP);
    long nblocks = 0;
    for (size_t k = 0; k < nref; k++) if (g_ev[k].id == PT_BLOCK_RETURN) nblocks = g_ev[k].a;
    delete ref;
    // the schedule under test (a fully reversed completion order needs as many workers as blocks)
    if ((bm == 1 || bm == 2) && nblocks >= 2 && nblocks <= 16 && threads < nblocks) threads = (int)nblocks;
    P.p3 = threads;
    std::string sched;
    uint64_t ps = mix(seed, (uint64_t)s);
    g_plan_seed.store(ps);
    g_nblocks_hint.store(nblocks);
    g_block_mode.store(bm);
    g_delay_us.store(delay_us);
    g_nev.store(0);
    {
      char t[200];
      snprintf(t, sizeof t, "schedule=%ld n=%zu cut=%lu overhead=%d threads=%d blocks=%ld delay_mode=%d seed=%llu", s, m.n, cut, overhead, threads, nblocks, bm, (unsigned long long)ps);
      obs::crumb("C09,C11", "blocks", t);
      obs::line(std::string("L\t") + t);
      obs::flush();
      sched = t;
    }
    StringDictionary *d = build_dict(K_BLOCKS, P, m);
    size_t n = std::min(g_nev.load(), EVCAP);
    g_delay_us.store(0);
    g_block_mode.store(0);
    obs::count("eval.block_build");
    if (nblocks >= 2) obs::count("cls.blocks_ge2");
    if (nblocks == 1) obs::count("cls.blocks_1");
    if ((size_t)nblocks == m.n) obs::count("cls.blocks_eq_n");
    if (nblocks >= 1000) obs::count("cls.blocks_ge1000");
    // ---- event log: exactly one queued -> begin -> built -> stored chain per block, everything stored before return
    std::vector<int> q(nblocks + 1, 0), b(nblocks + 1, 0), bu(nblocks + 1, 0), st(nblocks + 1, 0);
    long ret_at = -1, wait_at = -1, parts_done = -1, parts_size = -1;
    uint64_t order = FNV0, assign = FNV0;
    std::map<unsigned long, int> tids;
    long inflight = 0, maxconc = 0;
    bool in_order = true, reversed = true;
    long last_stored = -1;
    bool ok = true;
    for (size_t k = 0; k < n; k++) {
      const Ev &e = g_ev[k];
      if (e.id >= PT_BLOCK_QUEUED && e.id <= PT_BLOCK_STORED && (e.a < 0 || e.a >= nblocks)) { ok = false; continue; }
      if (e.id == PT_BLOCK_QUEUED) q[e.a]++;
      else if (e.id == PT_BLOCK_BEGIN) { b[e.a]++; inflight++; maxconc = std::max(maxconc, inflight); if (!tids.count(e.tid)) { int z = (int)tids.size(); tids[e.tid] = z; } long w = tids[e.tid]; assign = fnv1a(assign, &e.a, sizeof e.a); assign = fnv1a(assign, &w, sizeof w); }
      else if (e.id == PT_BLOCK_BUILT) { bu[e.a]++; inflight--; }
      else if (e.id == PT_BLOCK_STORED) {
        st[e.a]++;
        order = fnv1a(order, &e.a, sizeof e.a);
        if (e.a < last_stored) in_order = false;
        if (e.a > last_stored && last_stored >= 0) reversed = false;
        last_stored = e.a;
        if (ret_at >= 0) ok = false;
      } else if (e.id == PT_BLOCK_WAIT_DONE) { wait_at = (long)k; parts_done = e.a; parts_size = e.b; }
      else if (e.id == PT_BLOCK_RETURN) ret_at = (long)k;
    }
    obs::count("eval.block_event_chain", nblocks);
    for (long i = 0; i < nblocks; i++)
      if (q[i] != 1 || b[i] != 1 || bu[i] != 1 || st[i] != 1) ok = false;
    if (n < EVCAP && (!ok || ret_at < 0 || wait_at < 0 || parts_done != parts_size || parts_size != nblocks))
      obs::violation("C09", "blocks", "incomplete-or-duplicated-block", "events", std::string("event chain broken: ") + sched + " parts_done=" + std::to_string(parts_done) + " parts=" + std::to_string(parts_size));
    orders.insert(order);
    assignments.insert(assign);
    maxconc_seen = std::max(maxconc_seen, maxconc);
    if (nblocks >= 2 && !in_order) obs::count("cls.order_not_input_order");
    if (nblocks >= 3 && reversed) obs::count("cls.order_reversed");
    obs::count("cls.threads_seen_max", 0);
    // ---- boundary observation: image identical to the single-threaded one
    obs::crumb("C09", "blocks", std::string("save ") + sched);
    std::string img = save_image(d);
    obs::count("eval.image_comparison");
    if (img != refimg) {
      size_t i = 0, mm = std::min(img.size(), refimg.size());
      while (i < mm && img[i] == refimg[i]) i++;
      obs::violation("C09", "blocks", "image-differs", "threads", std::string("image differs from the single-threaded build at byte ") + std::to_string(i) + " (len " + std::to_string(img.size()) + " vs " + std::to_string(refimg.size()) + "): " + sched);
    }
    // ---- answers: every string, in input order
    Ctx c;
    c.kind = K_BLOCKS; c.P = P; c.m = m; c.d = d; c.state = "fresh"; c.rng = Rng(ps); c.ops = {"locate", "extract"}; c.samples_left = 0;
    long v0 = obs::n_viol;
    op_member(c);
    if (obs::n_viol != v0) obs::violation("C09", "blocks", "wrong-answer", "threads", std::string("locate/extract wrong after a parallel build: ") + sched);
    if (s < 3) obs::line(std::string("X\tblock build ") + sched + " -> completion order hash " + std::to_string(order) + ", max concurrent builders " + std::to_string(maxconc) + ", image " + std::to_string(img.size()) + " bytes == reference: " + (img == refimg ? "yes" : "NO"));
    obs::crumb("C07", "destroy", "delete blocks dictionary");
    delete d;
  }
  obs::count("distinct_completion_orders", (long)orders.size());
  obs::count("distinct_task_worker_assignments", (long)assignments.size());
  obs::count("max_concurrent_builders", maxconc_seen);
  for (uint64_t o : orders) obs::line("O\t" + std::to_string(o));
  return 0;
}

int main(int argc, char **argv) {
  std::string mode = "pool", out, input;
  long lifecycles = 100, schedules = 10, delay_us = 0, only_threads = 0;
  std::string only_cuts;
  bool parallel_first = false;
  int maxworkers = 8, maxtasks = 64, window = 1;
  uint64_t seed = 1;
  for (int i = 1; i < argc; i++) {
    std::string a = argv[i];
    auto val = [&]() { return std::string(i + 1 < argc ? argv[++i] : ""); };
    if (a == "--mode") mode = val();
    else if (a == "--out") out = val();
    else if (a == "--input") input = val();
    else if (a == "--lifecycles") lifecycles = atol(val().c_str());
    else if (a == "--schedules") schedules = atol(val().c_str());
    else if (a == "--delay-us") delay_us = atol(val().c_str());
    else if (a == "--maxworkers") maxworkers = atoi(val().c_str());
    else if (a == "--maxtasks") maxtasks = atoi(val().c_str());
    else if (a == "--window") window = atoi(val().c_str());
    else if (a == "--threads") only_threads = atol(val().c_str());
    else if (a == "--cuts") only_cuts = val();
    else if (a == "--parallel-first") parallel_first = true;
    else if (a == "--seed") seed = strtoull(val().c_str(), NULL, 10);
    else { fprintf(stderr, "unknown arg %s\n", a.c_str()); return 2; }
  }
  obs::install(out.empty() ? NULL : out.c_str(), !(UNDER_ASAN || UNDER_TSAN));
  g_ev = new Ev[EVCAP];
  libcsd_verif::point_ref().store(on_point, std::memory_order_release);
  int rc = mode == "pool" ? mode_pool(lifecycles, seed, maxworkers, maxtasks, delay_us, window) : mode_blocks(input, schedules, seed, delay_us, only_threads, only_cuts, parallel_first);
  obs::count("violations", obs::n_viol);
  obs::dump_counters();
  obs::line("D\tok");
  obs::flush();
  _exit(rc);
}
